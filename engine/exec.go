package main

// Predicated (merged-path) symbolic execution of go/ssa functions.

import (
	"fmt"
	"go/token"
	"go/types"
	"sort"
	"time"

	"golang.org/x/tools/go/ssa"
)

type Bounds struct {
	SliceLen  int // max length of nondet slices
	SpareCap  int // max spare capacity of nondet slices
	MapLen    int // max entries of nondet maps
	StrLen    int // max bytes of nondet strings
	PtrDepth  int // max pointer-chain depth of nondet values
	Unwind    int // loop unwinding bound
	CallDepth int // recursion bound for a single function
}

var DefaultBounds = Bounds{SliceLen: 2, SpareCap: 1, MapLen: 2, StrLen: 2, PtrDepth: 2, Unwind: 8, CallDepth: 6}

type Obligation struct {
	Kind  string // assert | panic | unwind | reach | bound
	Cond  *Term  // must be UNSAT (together with the assumptions); for "reach" must be SAT
	Label string
	Pos   string
	Fn    string
}

type NondetRec struct {
	Name string
	G    *Term
	Val  Value
	Heap Heap // contents of the objects created for this value
	Typ  types.Type
}

type ObserveRec struct {
	Name string
	G    *Term
	Val  Value
	Typ  types.Type
}

type Exec struct {
	Observes    []ObserveRec
	ts          *TS
	prog        *ssa.Program
	B           Bounds
	nobj        int
	Assumes     []*Term
	Obls        []Obligation
	Nondets     []NondetRec
	loops       map[*ssa.Function]*LoopInfo
	active      map[*ssa.Function]int
	globals     map[*ssa.Global]*Object
	stubs       map[string]*ssa.Function
	fnStats     map[string]int // function name -> #SSA instructions executed symbolically (static count)
	Native      *NativeEnv
	Conc        *ConcEnv
	steps       int
	optOverride map[string]string
	AbstractMul bool
	pool        *Pool
	deadline    time.Time
	chanCaps    map[*Object]*Term
	rootPkg     *ssa.Package
	Havoc       *HavocEnv
	feasCalls   int
	feasPruned  int
}

// Feasible asks the solver whether cond is satisfiable together with the assumptions collected so far.
// Only a definite "unsat" prunes; anything else keeps the alternative (sound).
func (ex *Exec) Feasible(cond *Term) bool {
	if cond.IsFalse() {
		return false
	}
	if ex.pool == nil {
		return true
	}
	ex.feasCalls++
	o := Obligation{Kind: "feas", Cond: cond}
	prefix, asserts, _, _ := queryParts(ex, o)
	s, err := ex.pool.Get("z3sat")
	if err != nil {
		return true
	}
	qr := s.Check(prefix, asserts, nil, 2*time.Second)
	ex.pool.Put(s)
	if qr.Status == "unsat" {
		ex.feasPruned++
		return false
	}
	return true
}

func NewExec(prog *ssa.Program, b Bounds) *Exec {
	return &Exec{ts: NewTS(), prog: prog, B: b, loops: map[*ssa.Function]*LoopInfo{}, active: map[*ssa.Function]int{},
		globals: map[*ssa.Global]*Object{}, stubs: map[string]*ssa.Function{}, fnStats: map[string]int{}, chanCaps: map[*Object]*Term{}}
}

func (ex *Exec) newObj(t types.Type, name string) *Object {
	ex.nobj++
	return &Object{ID: ex.nobj, Typ: t, Name: name}
}

func (ex *Exec) oblige(cond *Term, kind, label string) {
	if cond.IsFalse() {
		return
	}
	ex.Obls = append(ex.Obls, Obligation{Kind: kind, Cond: cond, Label: label})
}

// ---------- loop structure ----------

type Loop struct {
	header *ssa.BasicBlock
	body   map[*ssa.BasicBlock]bool
	parent *Loop
}

type LoopInfo struct {
	rpo    []*ssa.BasicBlock
	loopOf map[*ssa.BasicBlock]*Loop // innermost loop containing the block
}

func (ex *Exec) loopInfo(fn *ssa.Function) *LoopInfo {
	if li, ok := ex.loops[fn]; ok {
		return li
	}
	li := &LoopInfo{loopOf: map[*ssa.BasicBlock]*Loop{}}
	// reverse postorder
	seen := map[*ssa.BasicBlock]bool{}
	var post []*ssa.BasicBlock
	var dfs func(b *ssa.BasicBlock)
	dfs = func(b *ssa.BasicBlock) {
		seen[b] = true
		for _, s := range b.Succs {
			if !seen[s] {
				dfs(s)
			}
		}
		post = append(post, b)
	}
	dfs(fn.Blocks[0])
	for i := len(post) - 1; i >= 0; i-- {
		li.rpo = append(li.rpo, post[i])
	}
	// natural loops
	byHeader := map[*ssa.BasicBlock]*Loop{}
	var loops []*Loop
	for _, u := range li.rpo {
		for _, v := range u.Succs {
			if v.Dominates(u) { // back edge u->v
				L := byHeader[v]
				if L == nil {
					L = &Loop{header: v, body: map[*ssa.BasicBlock]bool{v: true}}
					byHeader[v] = L
					loops = append(loops, L)
				}
				stack := []*ssa.BasicBlock{u}
				for len(stack) > 0 {
					x := stack[len(stack)-1]
					stack = stack[:len(stack)-1]
					if L.body[x] {
						continue
					}
					L.body[x] = true
					for _, p := range x.Preds {
						if seen[p] {
							stack = append(stack, p)
						}
					}
				}
			}
		}
	}
	sort.Slice(loops, func(i, j int) bool { return len(loops[i].body) < len(loops[j].body) })
	for _, b := range li.rpo {
		for _, L := range loops { // smallest first
			if L.body[b] {
				li.loopOf[b] = L
				break
			}
		}
	}
	for i, L := range loops {
		for _, M := range loops[i+1:] {
			if M != L && M.body[L.header] {
				L.parent = M
				break
			}
		}
	}
	ex.loops[fn] = li
	return li
}

// ---------- frames ----------

type Regs map[ssa.Value]Value

type Snap struct {
	G       *Term
	Heap    Heap
	Regs    Regs
	PredIdx int
}

type exitRec struct {
	To *ssa.BasicBlock
	S  Snap
}

type retRec struct {
	G    *Term
	Heap Heap
	Val  Value
}

type Frame struct {
	ex     *Exec
	fn     *ssa.Function
	bind   []Value
	li     *LoopInfo
	pc     *Term
	heap   Heap
	regs   Regs
	rets   []retRec
	defers []deferRec
	gid    int // goroutine id (mode C)
}

type deferRec struct {
	G    *Term
	Call *ssa.CallCommon
	Fn   Value
	Args []Value
}

func copyHeap(h Heap) Heap {
	o := make(Heap, len(h)+4)
	for k, v := range h {
		o[k] = v
	}
	return o
}

func (ex *Exec) mergeSnaps(ins []Snap) (*Term, Heap, Regs) {
	ts := ex.ts
	n := len(ins)
	if n == 1 {
		r := make(Regs, len(ins[0].Regs)+8)
		for k, v := range ins[0].Regs {
			r[k] = v
		}
		return ins[0].G, copyHeap(ins[0].Heap), r
	}
	gs := make([]*Term, n)
	for i := range ins {
		gs[i] = ins[i].G
	}
	heap := copyHeap(ins[n-1].Heap)
	regs := make(Regs, len(ins[n-1].Regs)+8)
	for k, v := range ins[n-1].Regs {
		regs[k] = v
	}
	for i := n - 2; i >= 0; i-- {
		g := ins[i].G
		for o, v := range ins[i].Heap {
			cur, ok := heap[o]
			if !ok {
				heap[o] = v
			} else if cur != v {
				heap[o] = ex.merge(g, v, cur)
			}
		}
		for r, v := range ins[i].Regs {
			cur, ok := regs[r]
			if !ok {
				regs[r] = v
			} else if cur != v {
				regs[r] = ex.merge(g, v, cur)
			}
		}
	}
	return ts.Or(gs...), heap, regs
}

func predIndex(from, to *ssa.BasicBlock) int {
	for i, p := range to.Preds {
		if p == from {
			return i
		}
	}
	return -1
}

func (fr *Frame) dispatch(L *Loop, to *ssa.BasicBlock, s Snap, pending map[*ssa.BasicBlock][]Snap, backs *[]Snap, exits *[]exitRec) {
	if s.G.IsFalse() {
		return
	}
	switch {
	case L != nil && to == L.header:
		*backs = append(*backs, s)
	case L == nil || L.body[to]:
		pending[to] = append(pending[to], s)
	default:
		*exits = append(*exits, exitRec{to, s})
	}
}

func (fr *Frame) runRegion(L *Loop, pending map[*ssa.BasicBlock][]Snap) (backs []Snap, exits []exitRec) {
	for _, b := range fr.li.rpo {
		lb := fr.li.loopOf[b]
		if lb == L {
			ins := pending[b]
			delete(pending, b)
			if len(ins) == 0 {
				continue
			}
			outs := fr.execBlock(b, ins)
			for _, o := range outs {
				fr.dispatch(L, o.To, o.S, pending, &backs, &exits)
			}
		} else if lb != nil && lb.header == b && lb.parent == L {
			ins := pending[b]
			delete(pending, b)
			if len(ins) == 0 {
				continue
			}
			for _, e := range fr.runLoop(lb, ins) {
				fr.dispatch(L, e.To, e.S, pending, &backs, &exits)
			}
		}
	}
	return
}

func (fr *Frame) runLoop(L *Loop, ins []Snap) (exits []exitRec) {
	ex := fr.ex
	for k := 0; ; k++ {
		var live []Snap
		for _, s := range ins {
			if !s.G.IsFalse() {
				live = append(live, s)
			}
		}
		if len(live) == 0 {
			return
		}
		if k >= ex.B.Unwind {
			gs := make([]*Term, len(live))
			for i, s := range live {
				gs[i] = s.G
			}
			ex.Obls = append(ex.Obls, Obligation{Kind: "unwind", Cond: ex.ts.And(ex.ts.Or(gs...), ex.concPrefix()),
				Label: fmt.Sprintf("loop unwinding bound %d exceeded", ex.B.Unwind), Fn: fr.fn.String(), Pos: ex.pos(L.header.Instrs[0])})
			return
		}
		pending := map[*ssa.BasicBlock][]Snap{L.header: live}
		backs, ex2 := fr.runRegion(L, pending)
		exits = append(exits, ex2...)
		ins = backs
	}
}

func (ex *Exec) pos(i ssa.Instruction) string {
	if i == nil {
		return ""
	}
	p := i.Pos()
	if !p.IsValid() {
		return ""
	}
	pp := ex.prog.Fset.Position(p)
	return fmt.Sprintf("%s:%d", shortFile(pp.Filename), pp.Line)
}

func shortFile(f string) string {
	n := 0
	for i := len(f) - 1; i >= 0; i-- {
		if f[i] == '/' {
			n++
			if n == 2 {
				return f[i+1:]
			}
		}
	}
	return f
}

// callFunction symbolically executes fn (inlined) and returns its merged result.
func (ex *Exec) callFunction(fn *ssa.Function, args []Value, bind []Value, heap Heap, pc *Term, gid int) (Value, Heap) {
	if fn.Blocks == nil {
		panic(unsupported("call of function without body: " + fn.String()))
	}
	if pc.IsFalse() {
		return ex.zeroResults(fn.Signature), heap
	}
	if ex.active[fn] >= ex.B.CallDepth {
		ex.Obls = append(ex.Obls, Obligation{Kind: "unwind", Cond: ex.ts.And(pc, ex.concPrefix()),
			Label: fmt.Sprintf("recursion bound %d exceeded", ex.B.CallDepth), Fn: fn.String()})
		return ex.zeroResults(fn.Signature), heap
	}
	ex.active[fn]++
	defer func() { ex.active[fn]-- }()
	if _, ok := ex.fnStats[fn.String()]; !ok {
		n := 0
		for _, b := range fn.Blocks {
			n += len(b.Instrs)
		}
		ex.fnStats[fn.String()] = n
	}
	fr := &Frame{ex: ex, fn: fn, bind: bind, li: ex.loopInfo(fn), gid: gid}
	regs := Regs{}
	if len(args) != len(fn.Params) {
		panic(fmt.Sprintf("arity mismatch calling %s: %d args, %d params", fn, len(args), len(fn.Params)))
	}
	for i, p := range fn.Params {
		regs[p] = args[i]
	}
	pending := map[*ssa.BasicBlock][]Snap{fn.Blocks[0]: {Snap{G: pc, Heap: heap, Regs: regs}}}
	fr.runRegion(nil, pending)
	// merge returns
	if len(fr.rets) == 0 {
		return ex.zeroResults(fn.Signature), heap
	}
	n := len(fr.rets)
	val := fr.rets[n-1].Val
	h := fr.rets[n-1].Heap
	if n > 1 {
		h = copyHeap(h)
		for i := n - 2; i >= 0; i-- {
			g := fr.rets[i].G
			val = ex.merge(g, fr.rets[i].Val, val)
			for o, v := range fr.rets[i].Heap {
				cur, ok := h[o]
				if !ok {
					h[o] = v
				} else if cur != v {
					h[o] = ex.merge(g, v, cur)
				}
			}
		}
	}
	return val, h
}

func (ex *Exec) zeroResults(sig *types.Signature) Value {
	r := sig.Results()
	switch r.Len() {
	case 0:
		return nil
	case 1:
		return ex.zero(r.At(0).Type())
	}
	return ex.zero(r)
}

type outEdge struct {
	To *ssa.BasicBlock
	S  Snap
}

func (fr *Frame) execBlock(b *ssa.BasicBlock, ins []Snap) []outEdge {
	ex := fr.ex
	ts := ex.ts
	G, heap, regs := ex.mergeSnaps(ins)
	// phis: evaluate all against incoming snaps first
	nphi := 0
	for _, in := range b.Instrs {
		if _, ok := in.(*ssa.Phi); ok {
			nphi++
		} else {
			break
		}
	}
	if nphi > 0 {
		vals := make([]Value, nphi)
		for pi := 0; pi < nphi; pi++ {
			phi := b.Instrs[pi].(*ssa.Phi)
			var v Value
			for i := len(ins) - 1; i >= 0; i-- {
				ov := fr.evalIn(phi.Edges[ins[i].PredIdx], ins[i].Regs)
				if i == len(ins)-1 {
					v = ov
				} else {
					v = ex.merge(ins[i].G, ov, v)
				}
			}
			vals[pi] = v
		}
		for pi := 0; pi < nphi; pi++ {
			regs[b.Instrs[pi].(*ssa.Phi)] = vals[pi]
		}
	}
	fr.pc, fr.heap, fr.regs = G, heap, regs
	for _, in := range b.Instrs[nphi:] {
		ex.steps++
		if ex.steps&15 == 0 && !ex.deadline.IsZero() && time.Now().After(ex.deadline) {
			panic(unsupported(fmt.Sprintf("symbolic execution budget exceeded after %d SSA steps (%d terms)", ex.steps, len(ex.ts.nodes))))
		}
		switch i := in.(type) {
		case *ssa.If:
			c := fr.eval(i.Cond).(*VBV).T
			var outs []outEdge
			gt, gf := ts.And(fr.pc, c), ts.And(fr.pc, ts.Not(c))
			if !gt.IsFalse() {
				outs = append(outs, outEdge{b.Succs[0], Snap{gt, fr.heap, fr.regs, predIndex(b, b.Succs[0])}})
			}
			if !gf.IsFalse() {
				outs = append(outs, outEdge{b.Succs[1], Snap{gf, fr.heap, fr.regs, predIndex(b, b.Succs[1])}})
			}
			return outs
		case *ssa.Jump:
			return []outEdge{{b.Succs[0], Snap{fr.pc, fr.heap, fr.regs, predIndex(b, b.Succs[0])}}}
		case *ssa.Return:
			fr.runDefers()
			var v Value
			switch len(i.Results) {
			case 0:
			case 1:
				v = fr.eval(i.Results[0])
			default:
				e := make([]Value, len(i.Results))
				for k, r := range i.Results {
					e[k] = fr.eval(r)
				}
				v = &VTuple{e}
			}
			fr.rets = append(fr.rets, retRec{fr.pc, fr.heap, v})
			return nil
		case *ssa.Panic:
			ex.Obls = append(ex.Obls, Obligation{Kind: "panic", Cond: ex.ts.And(fr.pc, ex.concPrefix()), Label: "explicit panic", Pos: ex.pos(i), Fn: fr.fn.String()})
			return nil
		default:
			fr.instr(in)
		}
	}
	return nil
}

func (fr *Frame) panicIf(cond *Term, in ssa.Instruction, label string) {
	c := fr.ex.ts.And(fr.pc, cond, fr.ex.concPrefix())
	if c.IsFalse() {
		return
	}
	fr.ex.Obls = append(fr.ex.Obls, Obligation{Kind: "panic", Cond: c, Label: label, Pos: fr.ex.pos(in), Fn: fr.fn.String()})
}

func (fr *Frame) eval(v ssa.Value) Value { return fr.evalIn(v, fr.regs) }

func (fr *Frame) evalIn(v ssa.Value, regs Regs) Value {
	ex := fr.ex
	switch x := v.(type) {
	case *ssa.Const:
		return ex.constVal(x)
	case *ssa.Function:
		return &VFunc{[]FuncAlt{{G: ex.ts.True, Fn: x}}}
	case *ssa.Global:
		return &VPtr{Alts: []PtrAlt{{G: ex.ts.True, Obj: ex.globalObj(x)}}, Safe: true}
	case *ssa.FreeVar:
		for i, fv := range fr.fn.FreeVars {
			if fv == x {
				return fr.bind[i]
			}
		}
		panic("free var not found")
	case *ssa.Builtin:
		panic(unsupported("builtin as value: " + x.Name()))
	}
	if r, ok := regs[v]; ok {
		return r
	}
	panic(fmt.Sprintf("unbound register %s (%T) in %s", v.Name(), v, fr.fn))
}

func (ex *Exec) globalObj(g *ssa.Global) *Object {
	if o, ok := ex.globals[g]; ok {
		return o
	}
	o := ex.newObj(g.Type().(*types.Pointer).Elem(), "global "+g.Name())
	o.Global = g
	ex.globals[g] = o
	return o
}

// heapGet returns the content of an object (globals are lazily zero).
func (fr *Frame) heapGet(o *Object) Value {
	if v, ok := fr.heap[o]; ok {
		return v
	}
	if o.Global != nil {
		if v, ok := fr.ex.nativeGlobalInit(fr, o.Global); ok {
			fr.heap[o] = v
			return v
		}
	}
	v := fr.ex.zero(o.Typ)
	fr.heap[o] = v
	return v
}

func (fr *Frame) load(p *VPtr, in ssa.Instruction, typ types.Type) Value {
	ex := fr.ex
	if !p.Safe {
		fr.panicIf(ex.ts.Not(ex.ptrNonNil(p)), in, "nil pointer dereference")
	}
	if len(p.Alts) == 0 {
		return fr.ex.zero(typ)
	}
	n := len(p.Alts)
	get := func(a PtrAlt) Value {
		own := navigate(fr.heapGet(a.Obj), a.Path)
		if ex.Conc != nil {
			return ex.concLoad(fr, a, own, in)
		}
		return own
	}
	v := get(p.Alts[n-1])
	for i := n - 2; i >= 0; i-- {
		v = ex.merge(p.Alts[i].G, get(p.Alts[i]), v)
	}
	return v
}

func (fr *Frame) store(p *VPtr, val Value, in ssa.Instruction) {
	ex := fr.ex
	if !p.Safe {
		fr.panicIf(ex.ts.Not(ex.ptrNonNil(p)), in, "nil pointer dereference")
	}
	single := len(p.Alts) == 1
	for _, a := range p.Alts {
		g := a.G
		if ex.Conc != nil {
			ex.concStore(fr, a, g, val, in)
		}
		fr.heap[a.Obj] = update(fr.heapGet(a.Obj), a.Path, func(old Value) Value {
			if single {
				return val
			}
			return ex.merge(g, val, old)
		})
	}
}

func (fr *Frame) set(v ssa.Value, val Value) { fr.regs[v] = val }

func (fr *Frame) runDefers() {
	for i := len(fr.defers) - 1; i >= 0; i-- {
		d := fr.defers[i]
		saved := fr.pc
		fr.pc = fr.ex.ts.And(fr.pc, d.G)
		if !fr.pc.IsFalse() {
			fr.doCall(d.Call, d.Fn, d.Args, nil)
		}
		fr.pc = saved
	}
}

func (fr *Frame) instr(in ssa.Instruction) {
	ex := fr.ex
	ts := ex.ts
	switch i := in.(type) {
	case *ssa.DebugRef:
	case *ssa.Alloc:
		et := i.Type().(*types.Pointer).Elem()
		o := ex.newObj(et, i.Comment)
		fr.heap[o] = ex.zero(et)
		fr.set(i, &VPtr{Alts: []PtrAlt{{G: ts.True, Obj: o}}, Safe: true})
	case *ssa.UnOp:
		fr.set(i, fr.unop(i))
	case *ssa.BinOp:
		fr.set(i, fr.binop(i.Op, i.X.Type(), fr.eval(i.X), fr.eval(i.Y), i.Y.Type(), i))
	case *ssa.Store:
		fr.store(fr.eval(i.Addr).(*VPtr), fr.eval(i.Val), i)
	case *ssa.FieldAddr:
		if nv, ok := fr.eval(i.X).(*VNative); ok {
			fr.set(i, ex.nativeFieldAddr(fr, nv, i.Field, i))
			break
		}
		p := fr.eval(i.X).(*VPtr)
		if !p.Safe {
			fr.panicIf(ts.Not(ex.ptrNonNil(p)), i, "nil pointer dereference")
		}
		out := &VPtr{Alts: make([]PtrAlt, len(p.Alts)), Safe: true}
		for k, a := range p.Alts {
			np := make([]int, len(a.Path)+1)
			copy(np, a.Path)
			np[len(a.Path)] = i.Field
			out.Alts[k] = PtrAlt{a.G, a.Obj, np}
		}
		fr.set(i, out)
	case *ssa.Field:
		fr.set(i, fr.eval(i.X).(*VStruct).F[i.Field])
	case *ssa.IndexAddr:
		fr.set(i, fr.indexAddr(i))
	case *ssa.Index:
		fr.set(i, fr.index(i))
	case *ssa.Lookup:
		fr.set(i, fr.lookup(i))
	case *ssa.MapUpdate:
		fr.mapUpdate(fr.eval(i.Map).(*VMap), i.Map.Type().Underlying().(*types.Map), fr.eval(i.Key), fr.eval(i.Value), i)
	case *ssa.MakeMap:
		mt := i.Type().Underlying().(*types.Map)
		o := ex.newObj(mt, "makemap")
		fr.heap[o] = &VMapC{}
		fr.set(i, &VMap{[]MapAlt{{ts.True, o}}})
	case *ssa.MakeSlice:
		fr.set(i, fr.makeSlice(i.Type().Underlying().(*types.Slice).Elem(), fr.eval(i.Len).(*VBV).T, fr.eval(i.Cap).(*VBV).T, i))
	case *ssa.MakeClosure:
		b := make([]Value, len(i.Bindings))
		for k, x := range i.Bindings {
			b[k] = fr.eval(x)
		}
		fr.set(i, &VFunc{[]FuncAlt{{G: ts.True, Fn: i.Fn.(*ssa.Function), Bind: b}}})
	case *ssa.MakeInterface:
		fr.set(i, &VIface{[]IfaceAlt{{ts.True, i.X.Type(), fr.eval(i.X)}}})
	case *ssa.ChangeInterface:
		fr.set(i, fr.eval(i.X))
	case *ssa.ChangeType:
		fr.set(i, fr.eval(i.X))
	case *ssa.Convert:
		fr.set(i, fr.convert(i))
	case *ssa.TypeAssert:
		fr.set(i, fr.typeAssert(i))
	case *ssa.Extract:
		fr.set(i, fr.eval(i.Tuple).(*VTuple).E[i.Index])
	case *ssa.Slice:
		fr.set(i, fr.sliceOp(i))
	case *ssa.Range:
		fr.set(i, fr.rangeOp(i))
	case *ssa.Next:
		fr.set(i, fr.next(i))
	case *ssa.Call:
		args := make([]Value, len(i.Call.Args))
		for k, a := range i.Call.Args {
			args[k] = fr.eval(a)
		}
		var fv Value
		if i.Call.IsInvoke() {
			fv = fr.eval(i.Call.Value)
		} else if _, isB := i.Call.Value.(*ssa.Builtin); !isB {
			fv = fr.eval(i.Call.Value)
		}
		res := fr.doCall(&i.Call, fv, args, i)
		fr.set(i, res)
	case *ssa.Defer:
		args := make([]Value, len(i.Call.Args))
		for k, a := range i.Call.Args {
			args[k] = fr.eval(a)
		}
		var fv Value
		if _, isB := i.Call.Value.(*ssa.Builtin); !isB {
			fv = fr.eval(i.Call.Value)
		}
		fr.defers = append(fr.defers, deferRec{fr.pc, &i.Call, fv, args})
	case *ssa.RunDefers:
		fr.runDefers()
		fr.defers = nil
	case *ssa.Go, *ssa.Send, *ssa.Select, *ssa.MakeChan:
		fr.concInstr(in)
	default:
		panic(unsupported(fmt.Sprintf("instruction %T: %s", in, in)))
	}
}

func (ex *Exec) constVal(c *ssa.Const) Value {
	ts := ex.ts
	t := c.Type()
	if c.Value == nil {
		return ex.zero(t)
	}
	switch u := t.Underlying().(type) {
	case *types.Basic:
		switch {
		case u.Info()&types.IsBoolean != 0:
			return &VBV{ts.Bool(constBool(c))}
		case u.Info()&types.IsString != 0:
			return ex.strConst(constString(c))
		case u.Info()&types.IsInteger != 0:
			w, _ := ex.intW(t)
			return &VBV{ts.BV(constBits(c), w)}
		case u.Info()&types.IsFloat != 0:
			w, _ := ex.intW(t)
			return &VBV{ts.BV(constFloatBits(c, w), w)}
		case u.Info()&types.IsComplex != 0:
			w := 64
			if u.Kind() == types.Complex64 {
				w = 32
			}
			re, im := constComplexBits(c, w)
			return &VCplx{ts.BV(re, w), ts.BV(im, w)}
		}
	}
	panic(unsupported("constant of type " + t.String()))
}

func (ex *Exec) strConst(s string) *VStr {
	b := make([]*Term, len(s))
	for i := 0; i < len(s); i++ {
		b[i] = ex.ts.BV(uint64(s[i]), 8)
	}
	return &VStr{Len: ex.ts.BV(uint64(len(s)), 64), B: b, Alts: []StrAlt{{ex.ts.True, s}}}
}

func (fr *Frame) unop(i *ssa.UnOp) Value {
	ex := fr.ex
	ts := ex.ts
	x := fr.eval(i.X)
	switch i.Op {
	case token.MUL:
		return fr.load(x.(*VPtr), i, i.Type())
	case token.NOT:
		return &VBV{ts.Not(x.(*VBV).T)}
	case token.SUB:
		if isFloat(i.X.Type()) {
			t := x.(*VBV).T
			return &VBV{ts.BXor(t, ts.BV(uint64(1)<<uint(t.W-1), t.W))}
		}
		if isComplex(i.X.Type()) {
			c := x.(*VCplx)
			w := c.Re.W
			sb := ts.BV(uint64(1)<<uint(w-1), w)
			return &VCplx{ts.BXor(c.Re, sb), ts.BXor(c.Im, sb)}
		}
		return &VBV{ts.Neg(x.(*VBV).T)}
	case token.XOR:
		return &VBV{ts.BNot(x.(*VBV).T)}
	case token.ARROW:
		return fr.recv(i, x)
	}
	panic(unsupported("unop " + i.Op.String()))
}

func (fr *Frame) binop(op token.Token, xt types.Type, x, y Value, yt types.Type, in ssa.Instruction) Value {
	ex := fr.ex
	ts := ex.ts
	if op == token.EQL || op == token.NEQ {
		var r *Term
		switch xt.Underlying().(type) {
		case *types.Slice:
			if len(x.(*VSlice).Alts) > 0 && len(y.(*VSlice).Alts) > 0 {
				panic("slice compared with non-nil")
			}
			r = ts.And(ts.Not(ex.sliceNonNil(x.(*VSlice))), ts.Not(ex.sliceNonNil(y.(*VSlice))))
		case *types.Map:
			r = ts.And(ts.Not(ex.mapNonNil(x.(*VMap))), ts.Not(ex.mapNonNil(y.(*VMap))))
		case *types.Signature:
			r = ts.And(ts.Not(ex.funcNonNil(x.(*VFunc))), ts.Not(ex.funcNonNil(y.(*VFunc))))
		default:
			if _, ok := x.(*VNative); ok {
				r = ex.nativeEq(x, y)
			} else if _, ok := y.(*VNative); ok {
				r = ex.nativeEq(x, y)
			} else {
				r = ex.valueEq(xt, x, y)
			}
		}
		if op == token.NEQ {
			r = ts.Not(r)
		}
		return &VBV{r}
	}
	switch {
	case isString(xt):
		a, b := x.(*VStr), y.(*VStr)
		switch op {
		case token.ADD:
			return ex.strConcat(a, b)
		case token.LSS:
			return &VBV{ex.strLt(a, b)}
		case token.GTR:
			return &VBV{ex.strLt(b, a)}
		case token.LEQ:
			return &VBV{ts.Not(ex.strLt(b, a))}
		case token.GEQ:
			return &VBV{ts.Not(ex.strLt(a, b))}
		}
	case isFloat(xt):
		a, b := x.(*VBV).T, y.(*VBV).T
		switch op {
		case token.LSS:
			return &VBV{ts.Fp(OFpLt, a, b)}
		case token.GTR:
			return &VBV{ts.Fp(OFpLt, b, a)}
		case token.LEQ:
			return &VBV{ts.Fp(OFpLe, a, b)}
		case token.GEQ:
			return &VBV{ts.Fp(OFpLe, b, a)}
		case token.ADD:
			// x + (+0): the identity except that -0 becomes +0 (IEEE 754 round-to-nearest); NaN stays NaN
			v, z := a, b
			if a.IsConst() && a.Val == 0 {
				v, z = b, a
			}
			if z.IsConst() && z.Val == 0 {
				negZero := ts.BV(uint64(1)<<uint(v.W-1), v.W)
				return &VBV{ts.Ite(ts.Eq(v, negZero), ts.BV(0, v.W), v)}
			}
		}
		panic(unsupported("float arithmetic " + op.String()))
	case isBool(xt):
		a, b := x.(*VBV).T, y.(*VBV).T
		switch op {
		case token.AND, token.LAND:
			return &VBV{ts.And(a, b)}
		case token.OR, token.LOR:
			return &VBV{ts.Or(a, b)}
		}
	case isInteger(xt):
		a, b := x.(*VBV).T, y.(*VBV).T
		w, signed := ex.intW(xt)
		_ = w
		switch op {
		case token.ADD:
			return &VBV{ts.Add(a, b)}
		case token.SUB:
			return &VBV{ts.Sub(a, b)}
		case token.MUL:
			if ex.AbstractMul && a.W == 64 {
				// multiplication by a constant as an uninterpreted function (sound for proving equalities;
				// a counterexample under the abstraction is re-checked with real multiplication)
				if a.IsConst() && !b.IsConst() {
					return &VBV{ts.UF(fmt.Sprintf("mulc%d", a.Val), 64, b)}
				}
				if b.IsConst() && !a.IsConst() {
					return &VBV{ts.UF(fmt.Sprintf("mulc%d", b.Val), 64, a)}
				}
			}
			return &VBV{ts.Mul(a, b)}
		case token.QUO, token.REM:
			fr.panicIf(ts.Eq(b, ts.BV(0, b.W)), in, "integer divide by zero")
			o := map[bool]map[token.Token]Op{true: {token.QUO: OSDiv, token.REM: OSRem}, false: {token.QUO: OUDiv, token.REM: OURem}}[signed][op]
			return &VBV{ts.bin(o, a, b)}
		case token.AND:
			return &VBV{ts.BAnd(a, b)}
		case token.OR:
			return &VBV{ts.BOr(a, b)}
		case token.XOR:
			return &VBV{ts.BXor(a, b)}
		case token.AND_NOT:
			return &VBV{ts.BAnd(a, ts.BNot(b))}
		case token.SHL, token.SHR:
			_, ysigned := ex.intW(yt)
			if ysigned {
				fr.panicIf(ts.Slt(b, ts.BV(0, b.W)), in, "negative shift amount")
			}
			// normalise shift count to width of a
			var cnt *Term
			var big *Term = ts.False
			if b.W > a.W {
				big = ts.Not(ts.Ult(b, ts.BV(uint64(a.W), b.W)))
				cnt = ts.Extract(b, a.W-1, 0)
			} else {
				cnt = ts.Zext(b, a.W)
			}
			var r *Term
			if op == token.SHL {
				r = ts.Ite(big, ts.BV(0, a.W), ts.bin(OShl, a, cnt))
			} else if signed {
				r = ts.Ite(big, ts.bin(OAshr, a, ts.BV(uint64(a.W-1), a.W)), ts.bin(OAshr, a, cnt))
			} else {
				r = ts.Ite(big, ts.BV(0, a.W), ts.bin(OLshr, a, cnt))
			}
			return &VBV{r}
		case token.LSS:
			if signed {
				return &VBV{ts.Slt(a, b)}
			}
			return &VBV{ts.Ult(a, b)}
		case token.LEQ:
			if signed {
				return &VBV{ts.Sle(a, b)}
			}
			return &VBV{ts.Ule(a, b)}
		case token.GTR:
			if signed {
				return &VBV{ts.Slt(b, a)}
			}
			return &VBV{ts.Ult(b, a)}
		case token.GEQ:
			if signed {
				return &VBV{ts.Sle(b, a)}
			}
			return &VBV{ts.Ule(b, a)}
		}
	}
	panic(unsupported(fmt.Sprintf("binop %s on %s", op, xt)))
}

func (ex *Exec) strConcat(a, b *VStr) *VStr {
	ts := ex.ts
	if a.Len.IsConst() && a.Len.Val == 0 {
		return b
	}
	if b.Len.IsConst() && b.Len.Val == 0 {
		return a
	}
	if a.Alts != nil && b.Alts != nil && len(a.Alts)*len(b.Alts) <= 256 {
		var alts []StrAlt
		for _, p := range a.Alts {
			for _, q := range b.Alts {
				alts = append(alts, StrAlt{ts.And(p.G, q.G), p.S + q.S})
			}
		}
		return ex.strFromAlts(alts)
	}
	n := len(a.B) + len(b.B)
	out := &VStr{Len: ts.Add(a.Len, b.Len), B: make([]*Term, n)}
	z := ts.BV(0, 8)
	for i := 0; i < n; i++ {
		// byte i: if i < a.Len then a.B[i] else b.B[i-a.Len]
		v := z
		for k := len(a.B); k >= 0; k-- { // k = a.Len
			var c *Term
			if i < k {
				c = a.B[i]
			} else if i-k < len(b.B) {
				c = b.B[i-k]
			} else {
				c = z
			}
			if k == len(a.B) {
				v = c
			} else {
				v = ts.Ite(ts.Eq(a.Len, ts.BV(uint64(k), 64)), c, v)
			}
		}
		out.B[i] = v
	}
	return out
}

// slotChoice enumerates concrete slot indexes j of an array object with guard (idx == j).
func (fr *Frame) indexAddr(i *ssa.IndexAddr) Value {
	ex := fr.ex
	ts := ex.ts
	idx := fr.idx64(fr.eval(i.Index), i.Index.Type())
	out := &VPtr{Safe: true}
	switch xt := i.X.Type().Underlying().(type) {
	case *types.Slice:
		s := fr.eval(i.X).(*VSlice)
		fr.panicIf(ts.Not(ts.Ult(idx, ex.sliceLen(s))), i, "index out of range")
		for _, a := range s.Alts {
			pos := ts.Add(a.Off, idx)
			for j := 0; j < a.Obj.N; j++ {
				g := ts.And(a.G, ts.Eq(pos, ts.BV(uint64(j), 64)))
				if !g.IsFalse() {
					out.Alts = append(out.Alts, PtrAlt{g, a.Obj, []int{j}})
				}
			}
		}
	case *types.Pointer:
		p := fr.eval(i.X).(*VPtr)
		n := int(xt.Elem().Underlying().(*types.Array).Len())
		if !p.Safe {
			fr.panicIf(ts.Not(ex.ptrNonNil(p)), i, "nil pointer dereference")
		}
		fr.panicIf(ts.Not(ts.Ult(idx, ts.BV(uint64(n), 64))), i, "index out of range")
		for _, a := range p.Alts {
			for j := 0; j < n; j++ {
				g := ts.And(a.G, ts.Eq(idx, ts.BV(uint64(j), 64)))
				if !g.IsFalse() {
					np := make([]int, len(a.Path)+1)
					copy(np, a.Path)
					np[len(a.Path)] = j
					out.Alts = append(out.Alts, PtrAlt{g, a.Obj, np})
				}
			}
		}
	default:
		panic(unsupported("IndexAddr on " + i.X.Type().String()))
	}
	return out
}

// idx64 converts an index value of any integer type to a 64-bit term.
func (fr *Frame) idx64(v Value, t types.Type) *Term {
	ts := fr.ex.ts
	x := v.(*VBV).T
	if x.W == 64 {
		return x
	}
	_, signed := fr.ex.intW(t)
	if signed {
		return ts.Sext(x, 64)
	}
	return ts.Zext(x, 64)
}

func (fr *Frame) index(i *ssa.Index) Value {
	ex := fr.ex
	ts := ex.ts
	idx := fr.idx64(fr.eval(i.Index), i.Index.Type())
	switch x := fr.eval(i.X).(type) {
	case *VArr:
		n := len(x.E)
		fr.panicIf(ts.Not(ts.Ult(idx, ts.BV(uint64(n), 64))), i, "index out of range")
		if n == 0 {
			return ex.zero(i.Type())
		}
		v := x.E[n-1]
		for j := n - 2; j >= 0; j-- {
			v = ex.merge(ts.Eq(idx, ts.BV(uint64(j), 64)), x.E[j], v)
		}
		return v
	case *VStr:
		fr.panicIf(ts.Not(ts.Ult(idx, x.Len)), i, "index out of range")
		return &VBV{ex.strByteAt(x, idx)}
	}
	panic(unsupported("Index on " + i.X.Type().String()))
}

func (ex *Exec) strByteAt(x *VStr, idx *Term) *Term {
	ts := ex.ts
	n := len(x.B)
	if n == 0 {
		return ts.BV(0, 8)
	}
	v := x.B[n-1]
	for j := n - 2; j >= 0; j-- {
		v = ts.Ite(ts.Eq(idx, ts.BV(uint64(j), 64)), x.B[j], v)
	}
	return v
}

func (fr *Frame) makeSlice(elem types.Type, ln, cp *Term, in ssa.Instruction) Value {
	ex := fr.ex
	ts := ex.ts
	if ln.W != 64 {
		ln = ts.Sext(ln, 64)
	}
	if cp.W != 64 {
		cp = ts.Sext(cp, 64)
	}
	fr.panicIf(ts.Slt(ln, ts.BV(0, 64)), in, "makeslice: len out of range")
	fr.panicIf(ts.Slt(cp, ln), in, "makeslice: cap out of range")
	hi, ok := ts.uhi(cp)
	if !ok || hi > 64 {
		hi = uint64(ex.B.SliceLen*2 + ex.B.SpareCap + 2)
		c := ts.And(fr.pc, ts.Ult(ts.BV(hi, 64), cp))
		if !c.IsFalse() {
			ex.Obls = append(ex.Obls, Obligation{Kind: "bound", Cond: c, Label: fmt.Sprintf("make: capacity exceeds modelled slots (%d)", hi), Pos: ex.pos(in), Fn: fr.fn.String()})
		}
	}
	o := ex.newObj(types.NewArray(elem, int64(hi)), "make")
	o.N = int(hi)
	arr := &VArr{E: make([]Value, hi)}
	z := ex.zero(elem)
	for k := range arr.E {
		arr.E[k] = z
	}
	fr.heap[o] = arr
	return &VSlice{[]SliceAlt{{ts.True, o, ts.BV(0, 64), ln, cp}}}
}

func (fr *Frame) sliceOp(i *ssa.Slice) Value {
	ex := fr.ex
	ts := ex.ts
	get := func(v ssa.Value) *Term {
		if v == nil {
			return nil
		}
		return fr.idx64(fr.eval(v), v.Type())
	}
	lo, hi, mx := get(i.Low), get(i.High), get(i.Max)
	if lo == nil {
		lo = ts.BV(0, 64)
	}
	switch x := fr.eval(i.X).(type) {
	case *VSlice:
		out := &VSlice{}
		capAll := ex.sliceCap(x)
		h := hi
		if h == nil {
			h = ex.sliceLen(x)
		}
		m := mx
		if m == nil {
			m = capAll
		}
		fr.panicIf(ts.Not(ts.And(ts.Ule(lo, h), ts.Ule(h, m), ts.Ule(m, capAll))), i, "slice bounds out of range")
		for _, a := range x.Alts {
			ah := hi
			if ah == nil {
				ah = a.Len
			}
			am := mx
			if am == nil {
				am = a.Cap
			}
			out.Alts = append(out.Alts, SliceAlt{a.G, a.Obj, ts.Add(a.Off, lo), ts.Sub(ah, lo), ts.Sub(am, lo)})
		}
		// slicing a nil slice [0:0] stays nil
		return out
	case *VStr:
		h := hi
		if h == nil {
			h = x.Len
		}
		fr.panicIf(ts.Not(ts.And(ts.Ule(lo, h), ts.Ule(h, x.Len))), i, "slice bounds out of range")
		return ex.strSub(x, lo, h)
	case *VPtr:
		at := i.X.Type().Underlying().(*types.Pointer).Elem().Underlying().(*types.Array)
		n := uint64(at.Len())
		h := hi
		if h == nil {
			h = ts.BV(n, 64)
		}
		m := mx
		if m == nil {
			m = ts.BV(n, 64)
		}
		fr.panicIf(ts.Not(ts.And(ts.Ule(lo, h), ts.Ule(h, m), ts.Ule(m, ts.BV(n, 64)))), i, "slice bounds out of range")
		out := &VSlice{}
		for _, a := range x.Alts {
			if len(a.Path) != 0 {
				panic(unsupported("slicing an array embedded in another object"))
			}
			a.Obj.N = int(n)
			out.Alts = append(out.Alts, SliceAlt{a.G, a.Obj, lo, ts.Sub(h, lo), ts.Sub(m, lo)})
		}
		return out
	}
	panic(unsupported("Slice on " + i.X.Type().String()))
}

func (ex *Exec) strSub(x *VStr, lo, hi *Term) *VStr {
	ts := ex.ts
	if x.Alts != nil && lo.CT && hi.CT {
		var alts []StrAlt
		var los, his []lowInt
		collectCT(ts, lo, ts.True, &los)
		collectCT(ts, hi, ts.True, &his)
		if len(x.Alts)*len(los)*len(his) <= 256 {
			for _, a := range x.Alts {
				for _, l := range los {
					for _, h := range his {
						g := ts.And(a.G, l.G, h.G)
						if g.IsFalse() || l.V > h.V || h.V > uint64(len(a.S)) {
							continue
						}
						alts = append(alts, StrAlt{g, a.S[l.V:h.V]})
					}
				}
			}
			return ex.strFromAlts(alts)
		}
	}
	if lo.IsConst() {
		l := int(lo.Val)
		if l > len(x.B) {
			l = len(x.B)
		}
		return &VStr{Len: ts.Sub(hi, lo), B: x.B[l:]}
	}
	n := len(x.B)
	out := &VStr{Len: ts.Sub(hi, lo), B: make([]*Term, n)}
	for k := 0; k < n; k++ {
		out.B[k] = ex.strByteAt(x, ts.Add(lo, ts.BV(uint64(k), 64)))
	}
	return out
}

func (fr *Frame) typeAssert(i *ssa.TypeAssert) Value {
	ex := fr.ex
	ts := ex.ts
	xv := fr.eval(i.X)
	if nv, ok := xv.(*VNative); ok {
		return ex.nativeTypeAssert(fr, nv, i)
	}
	x := xv.(*VIface)
	if types.IsInterface(i.AssertedType) {
		// interface-to-interface: succeeds iff dynamic type implements it
		it := i.AssertedType.Underlying().(*types.Interface)
		out := &VIface{}
		var oks []*Term
		for _, a := range x.Alts {
			if types.Implements(a.T, it) {
				out.Alts = append(out.Alts, a)
				oks = append(oks, a.G)
			}
		}
		ok := ts.Or(oks...)
		if i.CommaOk {
			return &VTuple{[]Value{out, &VBV{ok}}}
		}
		fr.panicIf(ts.Not(ok), i, "interface conversion failed")
		return out
	}
	var val Value = ex.zero(i.AssertedType)
	var oks []*Term
	for k := len(x.Alts) - 1; k >= 0; k-- {
		a := x.Alts[k]
		if types.Identical(a.T, i.AssertedType) {
			val = ex.merge(a.G, a.V, val)
			oks = append(oks, a.G)
		}
	}
	ok := ts.Or(oks...)
	if i.CommaOk {
		return &VTuple{[]Value{val, &VBV{ok}}}
	}
	fr.panicIf(ts.Not(ok), i, "interface conversion failed")
	return val
}

func (fr *Frame) convert(i *ssa.Convert) Value {
	ex := fr.ex
	ts := ex.ts
	from, to := i.X.Type(), i.Type()
	x := fr.eval(i.X)
	fu, tu := from.Underlying(), to.Underlying()
	if p, ok := x.(*VPtr); ok {
		// pointer <-> unsafe.Pointer <-> uintptr, only for addresses obtained from (reflect.Value).UnsafeAddr
		// or a typed pointer: the address travels unchanged; converting it back to *T is trusted to name the
		// type of the storage it points at (checked natively by the replay)
		isUP := func(t types.Type) bool {
			b, ok := t.(*types.Basic)
			return ok && (b.Kind() == types.UnsafePointer || b.Kind() == types.Uintptr)
		}
		_, toPtr := tu.(*types.Pointer)
		_, fromPtr := fu.(*types.Pointer)
		if (isUP(fu) && (isUP(tu) || toPtr)) || (fromPtr && isUP(tu)) {
			return p
		}
	}
	if fb, ok := fu.(*types.Basic); ok {
		if tb, ok := tu.(*types.Basic); ok {
			switch {
			case fb.Info()&types.IsInteger != 0 && tb.Info()&types.IsInteger != 0:
				tw, _ := ex.intW(to)
				_, fs := ex.intW(from)
				t := x.(*VBV).T
				if fs {
					return &VBV{ts.Sext(t, tw)}
				}
				return &VBV{ts.Zext(t, tw)}
			case fb.Info()&types.IsString != 0 && tb.Info()&types.IsString != 0:
				return x
			case fb.Info()&types.IsFloat != 0 && tb.Info()&types.IsFloat != 0 && fb.Kind() == tb.Kind():
				return x
			case fb.Info()&types.IsComplex != 0 && tb.Info()&types.IsComplex != 0 && fb.Kind() == tb.Kind():
				return x
			case fb.Info()&types.IsInteger != 0 && tb.Info()&types.IsString != 0:
				_, fs := ex.intW(from)
				t := x.(*VBV).T
				var r *Term
				if fs {
					r = ts.Sext(t, 64)
				} else {
					r = ts.Zext(t, 64)
				}
				return ex.runeToStr(r)
			case fb.Kind() == types.UnsafePointer || tb.Kind() == types.UnsafePointer:
				panic(unsupported("unsafe.Pointer conversion"))
			}
		}
		if sl, ok := tu.(*types.Slice); ok && fb.Info()&types.IsString != 0 {
			s := x.(*VStr)
			eb := sl.Elem().Underlying().(*types.Basic)
			if eb.Kind() == types.Uint8 {
				return fr.bytesOfStr(s, sl.Elem())
			}
			if eb.Kind() == types.Int32 {
				return fr.runesOfStr(s, sl.Elem())
			}
		}
	}
	if sl, ok := fu.(*types.Slice); ok {
		if tb, ok := tu.(*types.Basic); ok && tb.Info()&types.IsString != 0 {
			eb := sl.Elem().Underlying().(*types.Basic)
			if eb.Kind() == types.Uint8 {
				return fr.strOfBytes(x.(*VSlice))
			}
			if eb.Kind() == types.Int32 {
				return fr.strOfRunes(x.(*VSlice))
			}
		}
	}
	if _, ok := fu.(*types.Pointer); ok {
		if tb, ok := tu.(*types.Basic); ok && tb.Kind() == types.UnsafePointer {
			panic(unsupported("unsafe.Pointer conversion"))
		}
	}
	panic(unsupported(fmt.Sprintf("convert %s -> %s", from, to)))
}

func (fr *Frame) bytesOfStr(s *VStr, elem types.Type) Value {
	ex := fr.ex
	ts := ex.ts
	n := len(s.B)
	o := ex.newObj(types.NewArray(elem, int64(n)), "[]byte(string)")
	o.N = n
	arr := &VArr{E: make([]Value, n)}
	for k := 0; k < n; k++ {
		arr.E[k] = &VBV{s.B[k]}
	}
	fr.heap[o] = arr
	return &VSlice{[]SliceAlt{{ts.True, o, ts.BV(0, 64), s.Len, s.Len}}}
}

func (fr *Frame) strOfBytes(s *VSlice) Value {
	ex := fr.ex
	ts := ex.ts
	ln := ex.sliceLen(s)
	hi, ok := ts.uhi(ln)
	if !ok {
		hi = 0
		for _, a := range s.Alts {
			if uint64(a.Obj.N) > hi {
				hi = uint64(a.Obj.N)
			}
		}
	}
	out := &VStr{Len: ln, B: make([]*Term, hi)}
	for k := range out.B {
		out.B[k] = fr.sliceElem(s, ts.BV(uint64(k), 64), ts.BV(0, 8))
	}
	return out
}

// sliceElem reads element idx of a slice of scalars as a term (def when out of range).
func (fr *Frame) sliceElem(s *VSlice, idx *Term, def *Term) *Term {
	ex := fr.ex
	ts := ex.ts
	v := def
	for ai := len(s.Alts) - 1; ai >= 0; ai-- {
		a := s.Alts[ai]
		arr := fr.heapGet(a.Obj).(*VArr)
		pos := ts.Add(a.Off, idx)
		av := def
		for j := a.Obj.N - 1; j >= 0; j-- {
			av = ts.Ite(ts.Eq(pos, ts.BV(uint64(j), 64)), arr.E[j].(*VBV).T, av)
		}
		v = ts.Ite(a.G, av, v)
	}
	return v
}

// sliceElemV reads element idx of a slice as a value.
func (fr *Frame) sliceElemV(s *VSlice, idx *Term, elem types.Type) Value {
	ex := fr.ex
	ts := ex.ts
	var v Value = ex.zero(elem)
	for ai := len(s.Alts) - 1; ai >= 0; ai-- {
		a := s.Alts[ai]
		arr := fr.heapGet(a.Obj).(*VArr)
		pos := ts.Add(a.Off, idx)
		var av Value = ex.zero(elem)
		for j := a.Obj.N - 1; j >= 0; j-- {
			av = ex.merge(ts.Eq(pos, ts.BV(uint64(j), 64)), arr.E[j], av)
		}
		v = ex.merge(a.G, av, v)
	}
	return v
}

// ---------- maps ----------

func (fr *Frame) mapContent(m *VMap) (slots []MapSlot) {
	// Merged view of the map's slots across alternatives (usually exactly one).
	ex := fr.ex
	ts := ex.ts
	if len(m.Alts) == 1 && m.Alts[0].G.IsTrue() {
		return fr.heapGet(m.Alts[0].Obj).(*VMapC).Slots
	}
	for _, a := range m.Alts {
		for _, s := range fr.heapGet(a.Obj).(*VMapC).Slots {
			slots = append(slots, MapSlot{ts.And(a.G, s.P), s.K, s.V})
		}
	}
	return
}

func (fr *Frame) mapLen(m *VMap) *Term {
	ts := fr.ex.ts
	n := ts.BV(0, 64)
	for _, s := range fr.mapContent(m) {
		n = ts.Add(n, ts.Ite(s.P, ts.BV(1, 64), ts.BV(0, 64)))
	}
	return n
}

func (fr *Frame) mapLookup(m *VMap, mt *types.Map, key Value) (Value, *Term) {
	ex := fr.ex
	ts := ex.ts
	var val Value = ex.zero(mt.Elem())
	var hits []*Term
	slots := fr.mapContent(m)
	for k := len(slots) - 1; k >= 0; k-- {
		s := slots[k]
		hit := ts.And(s.P, ex.valueEq(mt.Key(), s.K, key))
		if hit.IsFalse() {
			continue
		}
		val = ex.merge(hit, s.V, val)
		hits = append(hits, hit)
	}
	return val, ts.Or(hits...)
}

func (fr *Frame) lookup(i *ssa.Lookup) Value {
	ex := fr.ex
	ts := ex.ts
	switch x := fr.eval(i.X).(type) {
	case *VMap:
		mt := i.X.Type().Underlying().(*types.Map)
		if types.IsInterface(mt.Key()) {
			panic(unsupported("map with interface key"))
		}
		val, ok := fr.mapLookup(x, mt, fr.eval(i.Index))
		if i.CommaOk {
			return &VTuple{[]Value{val, &VBV{ok}}}
		}
		return val
	case *VStr:
		idx := fr.idx64(fr.eval(i.Index), i.Index.Type())
		fr.panicIf(ts.Not(ts.Ult(idx, x.Len)), i, "index out of range")
		return &VBV{ex.strByteAt(x, idx)}
	}
	panic(unsupported("Lookup on " + i.X.Type().String()))
}

func (fr *Frame) mapUpdate(m *VMap, mt *types.Map, key, val Value, in ssa.Instruction) {
	ex := fr.ex
	ts := ex.ts
	fr.panicIf(ts.Not(ex.mapNonNil(m)), in, "assignment to entry in nil map")
	single := len(m.Alts) == 1
	for _, a := range m.Alts {
		c := fr.heapGet(a.Obj).(*VMapC)
		ns := make([]MapSlot, len(c.Slots), len(c.Slots)+1)
		var hits []*Term
		for k, s := range c.Slots {
			hit := ts.And(s.P, ex.valueEq(mt.Key(), s.K, key))
			g := hit
			if !single {
				g = ts.And(a.G, hit)
			}
			ns[k] = MapSlot{s.P, s.K, ex.merge(g, val, s.V)}
			hits = append(hits, hit)
		}
		fresh := ts.Not(ts.Or(hits...))
		if !single {
			fresh = ts.And(a.G, fresh)
		}
		if !fresh.IsFalse() && len(ns) >= 3 && !ex.Feasible(ts.And(fr.pc, fresh)) {
			fresh = ts.False
		}
		if !fresh.IsFalse() {
			ns = append(ns, MapSlot{fresh, key, val})
		}
		fr.heap[a.Obj] = &VMapC{ns}
	}
}

func (fr *Frame) mapDelete(m *VMap, mt *types.Map, key Value) {
	ex := fr.ex
	ts := ex.ts
	single := len(m.Alts) == 1
	for _, a := range m.Alts {
		c := fr.heapGet(a.Obj).(*VMapC)
		ns := make([]MapSlot, len(c.Slots))
		for k, s := range c.Slots {
			hit := ts.And(s.P, ex.valueEq(mt.Key(), s.K, key))
			if !single {
				hit = ts.And(a.G, hit)
			}
			ns[k] = MapSlot{ts.And(s.P, ts.Not(hit)), s.K, s.V}
		}
		fr.heap[a.Obj] = &VMapC{ns}
	}
}

// ---------- range / next ----------

func (fr *Frame) rangeOp(i *ssa.Range) Value {
	ex := fr.ex
	ts := ex.ts
	o := ex.newObj(nil, "iter")
	switch x := fr.eval(i.X).(type) {
	case *VStr:
		fr.heap[o] = &VIterC{Kind: 0, Str: x, Pos: ts.BV(0, 64)}
	case *VMap:
		mt := i.X.Type().Underlying().(*types.Map)
		slots := fr.mapContent(x)
		// drop slots that are never present
		var live []MapSlot
		for _, s := range slots {
			if !s.P.IsFalse() {
				live = append(live, s)
			}
		}
		// iteration order: pairwise "a before b" booleans with transitivity (a strict total order)
		n := len(live)
		ord := make([][]*Term, n)
		for a := range ord {
			ord[a] = make([]*Term, n)
		}
		for a := 0; a < n; a++ {
			for b := a + 1; b < n; b++ {
				v := ts.Var("maporder", 0)
				ord[a][b] = v
				ord[b][a] = ts.Not(v)
			}
		}
		for a := 0; a < n; a++ {
			for b := 0; b < n; b++ {
				for c := 0; c < n; c++ {
					if a != b && b != c && a != c && a < c {
						ex.Assumes = append(ex.Assumes, ts.Implies(ts.And(ord[a][b], ord[b][c]), ord[a][c]))
						ex.Assumes = append(ex.Assumes, ts.Implies(ts.And(ord[c][b], ord[b][a]), ord[c][a]))
					}
				}
			}
		}
		if len(live) > 15 {
			panic(unsupported("map with more than 15 modelled slots"))
		}
		fr.heap[o] = &VIterC{Kind: 1, Slots: live, Ord: ord, Pos: ts.BV(0, 64), KT: mt.Key(), VT: mt.Elem()}
	default:
		panic(unsupported("Range on " + i.X.Type().String()))
	}
	return &VIter{[]IterAlt{{ts.True, o}}}
}

func (fr *Frame) next(i *ssa.Next) Value {
	ex := fr.ex
	its := fr.eval(i.Iter).(*VIter)
	if len(its.Alts) == 0 {
		panic(unsupported("next on empty iterator"))
	}
	if len(its.Alts) > 1 {
		// several possible iterators (an inner range re-created per outer iteration): advance each under its guard
		var res Value
		for k := len(its.Alts) - 1; k >= 0; k-- {
			al := its.Alts[k]
			old := fr.heap[al.Obj]
			r := fr.nextOne(al.Obj)
			fr.heap[al.Obj] = ex.merge(al.G, fr.heap[al.Obj], old)
			if res == nil {
				res = r
			} else {
				res = ex.merge(al.G, r, res)
			}
		}
		return res
	}
	return fr.nextOne(its.Alts[0].Obj)
}

func (fr *Frame) nextOne(itObj *Object) Value {
	ex := fr.ex
	ts := ex.ts
	it := struct{ Obj *Object }{itObj}
	c := fr.heap[it.Obj].(*VIterC)
	if c.Kind == 0 {
		ok := ts.Ult(c.Pos, c.Str.Len)
		r, size := ex.decodeRune(fr.pc, c.Str, c.Pos)
		nc := *c
		nc.Pos = ts.Add(c.Pos, size)
		fr.heap[it.Obj] = &nc
		return &VTuple{[]Value{&VBV{ok}, &VBV{c.Pos}, &VBV{r}}}
	}
	// map: the Pos-th present slot in rank order
	n := len(c.Slots)
	cnt := ts.BV(0, 64)
	for _, s := range c.Slots {
		cnt = ts.Add(cnt, ts.Ite(s.P, ts.BV(1, 64), ts.BV(0, 64)))
	}
	ok := ts.Ult(c.Pos, cnt)
	var key Value = ex.zero(c.KT)
	var val Value = ex.zero(c.VT)
	pos4 := ts.Extract(c.Pos, 3, 0)
	for a := n - 1; a >= 0; a-- {
		before := ts.BV(0, 4)
		for b := 0; b < n; b++ {
			if b == a {
				continue
			}
			before = ts.Add(before, ts.Ite(ts.And(c.Slots[b].P, c.Ord[b][a]), ts.BV(1, 4), ts.BV(0, 4)))
		}
		sel := ts.And(c.Slots[a].P, ts.Eq(before, pos4))
		key = ex.merge(sel, c.Slots[a].K, key)
		val = ex.merge(sel, c.Slots[a].V, val)
	}
	nc := *c
	nc.Pos = ts.Add(c.Pos, ts.BV(1, 64))
	fr.heap[it.Obj] = &nc
	return &VTuple{[]Value{&VBV{ok}, key, val}}
}

type lowInt struct {
	G *Term
	V uint64
}

// collectCT enumerates the leaves of an ite-tree with constant leaves together with their path guards.
func collectCT(ts *TS, t *Term, g *Term, out *[]lowInt) {
	if g.IsFalse() {
		return
	}
	if t.Op == OConst {
		*out = append(*out, lowInt{g, t.Val})
		return
	}
	collectCT(ts, t.Args[1], ts.And(g, t.Args[0]), out)
	collectCT(ts, t.Args[2], ts.And(g, ts.Not(t.Args[0])), out)
}
