package main

import (
	"fmt"
	"os"
	"path/filepath"
	"strings"
	"time"
)

// c12PublicAPI confirms a counterexample of a main_* harness by running the real goderive binary with the same
// flags on a package whose calls use the customised (nested) prefixes with typed results: a call handled by
// the wrong plugin makes goderive fail or leaves a package that does not type-check.
func c12PublicAPI(r *Runner, harness string) string {
	type cfg struct {
		flags []string
		src   string
	}
	P := "type P struct {\n\tA int\n\tB string\n}\n\n"
	cfgs := map[string]cfg{
		"cfg0":      {nil, P + "var _ = func(a, b *P) bool { return deriveEqual(a, b) }\nvar _ = func(l []int) []int { return deriveSort(l) }\n"},
		"cfg0gen":   {[]string{"-prefix=gen"}, P + "var _ = func(a, b *P) bool { return genEqual(a, b) }\nvar _ = func(l []int) []int { return genSort(l) }\n"},
		"cfg1":      {[]string{"-pluginprefix=compare=cmp,equal=cmpEq"}, P + "var _ = func(a, b *P) bool { return cmpEq(a, b) }\nvar _ = func(a, b *P) int { return cmp(a, b) }\n"},
		"cfg2":      {[]string{"-pluginprefix=equal=eq,compare=eqOrd"}, P + "var _ = func(a, b *P) bool { return eq(a, b) }\nvar _ = func(a, b *P) int { return eqOrd(a, b) }\n"},
		"cfg3":      {[]string{"-pluginprefix=sort=deriveS,set=deriveSet2,keys=deriveSet"}, "var _ = func(l []int) map[int]struct{} { return deriveSet2(l) }\nvar _ = func(m map[int]string) []int { return deriveSet(m) }\nvar _ = func(l []int) []int { return deriveS(l) }\n"},
		"cfg4":      {[]string{"-prefix=gen", "-pluginprefix=hash=deriveHash,mem=deriveHashMem"}, P + "var _ = func(a *P) uint64 { return deriveHash(a) }\nvar _ = func(f func(int) int) func(int) int { return deriveHashMem(f) }\n"},
		"cfg6gen":   {[]string{"-prefix=gen", "-pluginprefix=equal=deriveEqual,compare=deriveCmp"}, P + "var _ = func(a, b *P) bool { return deriveEqual(a, b) }\nvar _ = func(a, b *P) int { return deriveCmp(a, b) }\nvar _ = func(a *P) uint64 { return genHash(a) }\n"},
		"cfg0empty": {[]string{"-prefix="}, P + "var _ = func(a, b *P) bool { return Equal(a, b) }\nvar _ = func(m map[string]int) []string { return Sort(Keys(m)) }\n"},
		"cfg2empty": {[]string{"-prefix=", "-pluginprefix=equal=eq,compare=eqOrd"}, P + "var _ = func(a, b *P) bool { return eq(a, b) }\nvar _ = func(a, b *P) int { return eqOrd(a, b) }\nvar _ = func(a *P) uint64 { return Hash(a) }\n"},
		"cfg5":      {[]string{"-pluginprefix=min=m,max=mm,mem=mmm"}, "var _ = func(a, b int) int { return m(a, b) }\nvar _ = func(a, b int) int { return mm(a, b) }\nvar _ = func(f func(int) int) func(int) int { return mmm(f) }\n"},
	}
	key := harness[strings.LastIndex(harness, "_")+1:]
	c, ok := cfgs[key]
	if !ok {
		return ""
	}
	rel := "vxfix/c12/" + key
	dir := filepath.Join(r.S.Repo, rel)
	os.MkdirAll(dir, 0o755)
	os.WriteFile(filepath.Join(dir, "x.go"), []byte("package "+key+"\n\n"+c.src), 0o644)
	out, code, _ := runCmd(r.S.Repo, goEnv(), 2*time.Minute, r.S.Goderive, append(append([]string{}, c.flags...), "./"+rel)...)
	if code != 0 {
		return fmt.Sprintf("assert-failed [public API: goderive %s exits %d: %s]", strings.Join(c.flags, " "), code, trunc(strings.TrimSpace(out), 200))
	}
	if errs := typeCheck(r.S.Repo, []string{"./" + rel}, goEnv()); len(errs) > 0 {
		for _, e := range errs {
			return fmt.Sprintf("assert-failed [public API: goderive %s dispatches a call to the wrong plugin: %s]", strings.Join(c.flags, " "), trunc(e, 200))
		}
	}
	return "passed"
}
