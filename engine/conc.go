package main

import (
	"golang.org/x/tools/go/ssa"
)

// Mode C: goroutines, channels, select, WaitGroup with the schedule as solver variables.
type ConcEnv struct{}

func (fr *Frame) concInstr(in ssa.Instruction)        { panic(unsupported("concurrency instruction")) }
func (fr *Frame) recv(i *ssa.UnOp, x Value) Value     { panic(unsupported("channel receive")) }
func (ex *Exec) chanLen(fr *Frame, c *VChan) Value    { panic(unsupported("len(chan)")) }
func (ex *Exec) chanCap(fr *Frame, c *VChan) Value    { panic(unsupported("cap(chan)")) }
func (ex *Exec) chanClose(fr *Frame, c *VChan, in ssa.Instruction) {
	panic(unsupported("close(chan)"))
}
func (ex *Exec) concIntrinsic(fr *Frame, fn *ssa.Function, args []Value, pc *Term, in ssa.Instruction) (Value, bool) {
	return nil, false
}
