package main

// Mode C: goroutines, channels, select and WaitGroup with the SCHEDULE as solver variables.
//
// Every goroutine is executed (eagerly, at its `go` statement, on a snapshot of the spawner's heap) by the
// ordinary predicated executor. Each channel operation, close, WaitGroup call, `go`, and each store to /
// load from memory shared across goroutines becomes an EVENT with a guard (its path condition), a boolean
// "fired" and an 8-bit timestamp. finalizeConc() emits the constraints that make (fired, timestamp, match)
// assignments exactly the executions of the Go memory/channel model within the bounds:
// program order, spawn order, rendezvous / FIFO buffering / capacity, close semantics, select, WaitGroup
// counters, read-from for shared cells, uniqueness of timestamps. Queries: assertions reached by a thread
// (safety), panics (send on closed, close of closed), deadlock/leak (a maximal schedule with a blocked
// goroutine) and data races (two conflicting accesses adjacent in some execution).

import (
	"fmt"
	"go/types"

	"golang.org/x/tools/go/ssa"
)

const tsW = 8

type CThread struct {
	ID       int
	Parent   *CThread
	Spawn    *CEvent
	Events   []*CEvent
	AllFired *Term // every event so far in this thread whose guard holds has fired
	Snapshot map[*Object]bool
	Name     string
}

type CEvent struct {
	ID       int
	Th       *CThread
	Kind     string // send recv close spawn wgadd wgdone wgwait store load
	G, F, T  *Term
	Prev     *Term // AllFired of the thread when the event was created
	Blocking bool
	Ch       *VChan
	Val      Value
	Ok       *Term
	CR       *Term             // recv: "closed and drained" alternative
	M        map[*CEvent]*Term // recv: match variable per candidate send
	WG       string
	N        *Term
	Sel      int // select group (0 = none)
	Cell     string
	Pos      string
}

type VChanC struct {
	Cap  *Term // BV64
	Elem types.Type
}

type ConcEnv struct {
	Threads  []*CThread
	Events   []*CEvent
	Cur      *CThread
	nsel     int
	Stores   map[string][]*CEvent
	Final    bool
	Deadlock *Term
	Race     *Term
	Panics   []Obligation
}

func NewConcEnv(ts *TS) *ConcEnv {
	c := &ConcEnv{Stores: map[string][]*CEvent{}}
	main := &CThread{ID: 0, AllFired: ts.True, Name: "main"}
	c.Threads = []*CThread{main}
	c.Cur = main
	return c
}

// concPrefix: the condition under which the current thread has got this far.
func (ex *Exec) concPrefix() *Term {
	if ex.Conc == nil || ex.Conc.Cur == nil {
		return ex.ts.True
	}
	return ex.Conc.Cur.AllFired
}

func (ex *Exec) newEvent(fr *Frame, kind string, blocking bool, in ssa.Instruction) *CEvent {
	c := ex.Conc
	ts := ex.ts
	e := &CEvent{ID: len(c.Events), Th: c.Cur, Kind: kind, G: fr.pc, Blocking: blocking, Prev: c.Cur.AllFired, Pos: ex.pos(in)}
	e.F = ts.Var(fmt.Sprintf("fired.%s%d", kind, e.ID), 0)
	e.T = ts.Var(fmt.Sprintf("time.%s%d", kind, e.ID), tsW)
	c.Events = append(c.Events, e)
	c.Cur.Events = append(c.Cur.Events, e)
	if len(c.Events) > 200 {
		panic(unsupported("more than 200 concurrency events"))
	}
	return e
}

// advance records that the thread continues past e only once e has fired.
func (ex *Exec) advance(e *CEvent) {
	ts := ex.ts
	e.Th.AllFired = ts.And(e.Th.AllFired, ts.Implies(e.G, e.F))
}

func (ex *Exec) sameChan(a, b *VChan) *Term {
	ts := ex.ts
	var cs []*Term
	for _, x := range a.Alts {
		for _, y := range b.Alts {
			if x.Obj == y.Obj {
				cs = append(cs, ts.And(x.G, y.G))
			}
		}
	}
	return ts.Or(cs...)
}

func (ex *Exec) chanCapTerm(fr *Frame, c *VChan) *Term {
	ts := ex.ts
	r := ts.BV(0, 64)
	for i := len(c.Alts) - 1; i >= 0; i-- {
		r = ts.Ite(c.Alts[i].G, ex.chanCaps[c.Alts[i].Obj], r)
	}
	return r
}

func (fr *Frame) concInstr(in ssa.Instruction) {
	ex := fr.ex
	ts := ex.ts
	if ex.Conc == nil {
		panic(unsupported("concurrency instruction outside mode C"))
	}
	switch i := in.(type) {
	case *ssa.MakeChan:
		sz := fr.eval(i.Size).(*VBV).T
		if sz.W != 64 {
			sz = ts.Sext(sz, 64)
		}
		o := ex.newObj(nil, "chan")
		fr.heap[o] = &VChanC{Cap: sz, Elem: i.Type().Underlying().(*types.Chan).Elem()}
		ex.chanCaps[o] = sz
		fr.panicIf(ts.Slt(sz, ts.BV(0, 64)), i, "makechan: size out of range")
		fr.set(i, &VChan{[]ChanAlt{{ts.True, o}}})
	case *ssa.Send:
		ch := fr.eval(i.Chan).(*VChan)
		e := ex.newEvent(fr, "send", true, i)
		e.Ch = ch
		e.Val = fr.eval(i.X)
		ex.advance(e)
	case *ssa.Go:
		fr.goStmt(i)
	case *ssa.Select:
		fr.set(i, fr.selectStmt(i))
	default:
		panic(unsupported(fmt.Sprintf("concurrency instruction %T", in)))
	}
}

// recvEvent creates a receive on ch (not yet advanced) and its result value.
func (ex *Exec) recvEvent(fr *Frame, ch *VChan, elem types.Type, in ssa.Instruction) (*CEvent, Value) {
	ts := ex.ts
	c := ex.Conc
	e := ex.newEvent(fr, "recv", true, in)
	e.Ch = ch
	e.M = map[*CEvent]*Term{}
	e.CR = ts.Var(fmt.Sprintf("closedrecv%d", e.ID), 0)
	var val Value = ex.zero(elem)
	var oks []*Term
	for _, s := range c.Events {
		if s.Kind != "send" || s.Th == e.Th {
			continue
		}
		same := ex.sameChan(s.Ch, ch)
		if same.IsFalse() {
			continue
		}
		m := ts.Var(fmt.Sprintf("match.s%d.r%d", s.ID, e.ID), 0)
		e.M[s] = m
		val = ex.merge(m, s.Val, val)
		oks = append(oks, m)
	}
	e.Ok = ts.Or(oks...)
	e.Val = val
	return e, val
}

func (fr *Frame) recv(i *ssa.UnOp, x Value) Value {
	ex := fr.ex
	if ex.Conc == nil {
		panic(unsupported("channel receive outside mode C"))
	}
	ch := x.(*VChan)
	elem := i.X.Type().Underlying().(*types.Chan).Elem()
	e, val := ex.recvEvent(fr, ch, elem, i)
	ex.advance(e)
	if i.CommaOk {
		return &VTuple{[]Value{val, &VBV{e.Ok}}}
	}
	return val
}

func (fr *Frame) selectStmt(i *ssa.Select) Value {
	ex := fr.ex
	ts := ex.ts
	c := ex.Conc
	if !i.Blocking {
		panic(unsupported("select with default"))
	}
	c.nsel++
	grp := c.nsel
	var evs []*CEvent
	var vals []Value
	for _, st := range i.States {
		ch := fr.eval(st.Chan).(*VChan)
		if st.Dir == types.SendOnly {
			// a send case: an ordinary send event that belongs to the select group (at most one case of the
			// group fires; the group is blocked while none has fired)
			e := ex.newEvent(fr, "send", true, i)
			e.Ch = ch
			e.Val = fr.eval(st.Send)
			e.Sel = grp
			e.Ok = ts.False
			evs = append(evs, e)
			continue
		}
		elem := st.Chan.Type().Underlying().(*types.Chan).Elem()
		e, v := ex.recvEvent(fr, ch, elem, i)
		e.Sel = grp
		evs = append(evs, e)
		vals = append(vals, v)
	}
	// the thread continues when exactly one case has fired
	var fs []*Term
	for _, e := range evs {
		fs = append(fs, e.F)
	}
	any := ts.Or(fs...)
	th := c.Cur
	th.AllFired = ts.And(th.AllFired, ts.Implies(fr.pc, any))
	idx := ts.BV(0, 64)
	ok := ts.False
	for k := len(evs) - 1; k >= 0; k-- {
		idx = ts.Ite(evs[k].F, ts.BV(uint64(k), 64), idx)
		ok = ts.Ite(evs[k].F, evs[k].Ok, ok)
	}
	out := []Value{&VBV{idx}, &VBV{ok}}
	out = append(out, vals...)
	return &VTuple{out}
}

func (fr *Frame) goStmt(i *ssa.Go) {
	ex := fr.ex
	c := ex.Conc
	if len(c.Threads) >= 16 {
		panic(unsupported("more than 16 goroutines"))
	}
	args := make([]Value, len(i.Call.Args))
	for k, a := range i.Call.Args {
		args[k] = fr.eval(a)
	}
	if i.Call.IsInvoke() {
		panic(unsupported("go statement on an interface method"))
	}
	fv, ok := fr.eval(i.Call.Value).(*VFunc)
	if !ok || len(fv.Alts) != 1 {
		panic(unsupported("go statement on a non-constant function value"))
	}
	sp := ex.newEvent(fr, "spawn", false, i)
	ex.advance(sp)
	child := &CThread{ID: len(c.Threads), Parent: c.Cur, Spawn: sp, AllFired: ex.ts.True, Snapshot: map[*Object]bool{}, Name: fv.Alts[0].Fn.Name()}
	for o := range fr.heap {
		child.Snapshot[o] = true
	}
	c.Threads = append(c.Threads, child)
	saved := c.Cur
	c.Cur = child
	a := fv.Alts[0]
	if a.Recv != nil {
		args = append([]Value{a.Recv}, args...)
	}
	// the child runs on a snapshot of the spawner's heap; its effects on shared cells are events
	ex.callFunction(a.Fn, args, a.Bind, copyHeap(fr.heap), fr.pc, child.ID)
	c.Cur = saved
}

func (ex *Exec) chanLen(fr *Frame, c *VChan) Value { panic(unsupported("len(chan)")) }
func (ex *Exec) chanCap(fr *Frame, c *VChan) Value {
	return &VBV{ex.chanCapTerm(fr, c)}
}

func (ex *Exec) chanClose(fr *Frame, ch *VChan, in ssa.Instruction) {
	if ex.Conc == nil {
		panic(unsupported("close(chan) outside mode C"))
	}
	e := ex.newEvent(fr, "close", false, in)
	e.Ch = ch
	ex.advance(e)
}

func cellKey(o *Object, path []int) string { return fmt.Sprintf("%d%v", o.ID, path) }

func (ex *Exec) wgKey(v Value) string {
	p, ok := v.(*VPtr)
	if !ok || len(p.Alts) != 1 {
		panic(unsupported("WaitGroup reached through a symbolic pointer"))
	}
	return cellKey(p.Alts[0].Obj, p.Alts[0].Path)
}

func (ex *Exec) concIntrinsic(fr *Frame, fn *ssa.Function, args []Value, pc *Term, in ssa.Instruction) (Value, bool) {
	ts := ex.ts
	switch fn.String() {
	case "(*sync.WaitGroup).Add":
		e := ex.newEvent(fr, "wgadd", false, in)
		e.WG = ex.wgKey(args[0])
		e.N = ts.Extract(args[1].(*VBV).T, tsW-1, 0)
		ex.advance(e)
		return nil, true
	case "(*sync.WaitGroup).Done":
		e := ex.newEvent(fr, "wgdone", false, in)
		e.WG = ex.wgKey(args[0])
		ex.advance(e)
		return nil, true
	case "(*sync.WaitGroup).Wait":
		e := ex.newEvent(fr, "wgwait", true, in)
		e.WG = ex.wgKey(args[0])
		ex.advance(e)
		return nil, true
	}
	return nil, false
}

// concStore / concLoad: accesses to memory that is shared between goroutines.
func (ex *Exec) concStore(fr *Frame, a PtrAlt, g *Term, val Value, in ssa.Instruction) {
	c := ex.Conc
	if c == nil || c.Cur.Snapshot == nil || !c.Cur.Snapshot[a.Obj] {
		return
	}
	e := ex.newEvent(fr, "store", false, in)
	e.G = ex.ts.And(fr.pc, g)
	e.Cell = cellKey(a.Obj, a.Path)
	e.Val = val
	ex.advance(e)
	c.Stores[e.Cell] = append(c.Stores[e.Cell], e)
}

func (ex *Exec) concLoad(fr *Frame, a PtrAlt, own Value, in ssa.Instruction) Value {
	c := ex.Conc
	if c == nil {
		return own
	}
	ws := c.Stores[cellKey(a.Obj, a.Path)]
	var foreign []*CEvent
	for _, w := range ws {
		if w.Th != c.Cur && !isAncestor(w.Th, c.Cur) {
			foreign = append(foreign, w)
		}
	}
	if len(foreign) == 0 {
		return own
	}
	ts := ex.ts
	l := ex.newEvent(fr, "load", false, in)
	l.G = ex.ts.And(fr.pc, a.G)
	l.Cell = cellKey(a.Obj, a.Path)
	ex.advance(l)
	c.Stores[l.Cell] = append(c.Stores[l.Cell], l)
	// the latest foreign store before the load wins, otherwise the thread's own view
	v := own
	for _, w := range foreign {
		later := ts.True
		for _, w2 := range foreign {
			if w2 != w {
				later = ts.And(later, ts.Not(ts.And(w2.F, ts.Ult(w.T, w2.T), ts.Ult(w2.T, l.T))))
			}
		}
		v = ex.merge(ts.And(w.F, ts.Ult(w.T, l.T), later), w.Val, v)
	}
	return v
}

func isAncestor(a, b *CThread) bool {
	for t := b.Parent; t != nil; t = t.Parent {
		if t == a {
			return true
		}
	}
	return false
}

// finalizeConc emits the schedule constraints and the deadlock / race / panic obligations.
func (ex *Exec) finalizeConc() {
	c := ex.Conc
	if c == nil || c.Final {
		return
	}
	c.Final = true
	ts := ex.ts
	add := func(t *Term) { ex.Assumes = append(ex.Assumes, t) }
	lt := func(a, b *CEvent) *Term { return ts.Ult(a.T, b.T) }
	one8 := ts.BV(1, tsW)
	zero8 := ts.BV(0, tsW)
	count := func(conds []*Term) *Term {
		n := zero8
		for _, cnd := range conds {
			n = ts.Add(n, ts.Ite(cnd, one8, zero8))
		}
		return n
	}
	evs := c.Events
	var sends, recvs, closes []*CEvent
	for _, e := range evs {
		switch e.Kind {
		case "send":
			sends = append(sends, e)
		case "recv":
			recvs = append(recvs, e)
		case "close":
			closes = append(closes, e)
		}
	}
	// an event is reached when its guard holds, the earlier events of its goroutine have fired and the
	// goroutine exists at all (its go statement has fired: a spawner that blocks before the go statement
	// leaves the child's operations unreached, not blocked)
	reached := func(e *CEvent) *Term {
		r := ts.And(e.G, e.Prev)
		if e.Th.Spawn != nil {
			r = ts.And(r, e.Th.Spawn.F)
		}
		return r
	}
	for _, e := range evs {
		// fired only if reached; non-blocking events fire when reached
		add(ts.Implies(e.F, reached(e)))
		if !e.Blocking {
			add(ts.Implies(reached(e), e.F))
		}
		add(ts.Ult(e.T, ts.BV(250, tsW)))
		// spawn order
		if e.Th.Spawn != nil {
			add(ts.Implies(e.F, ts.And(e.Th.Spawn.F, lt(e.Th.Spawn, e))))
		}
	}
	// program order and uniqueness of timestamps
	for i, a := range evs {
		for _, b := range evs[i+1:] {
			both := ts.And(a.F, b.F)
			if a.Th == b.Th {
				if a.Sel != 0 && a.Sel == b.Sel {
					add(ts.Not(both)) // at most one case of a select
					continue
				}
				add(ts.Implies(both, lt(a, b)))
				continue
			}
			rendezvous := ts.False
			if a.Kind == "send" && b.Kind == "recv" {
				if m, ok := b.M[a]; ok {
					rendezvous = m
				}
			}
			if b.Kind == "send" && a.Kind == "recv" {
				if m, ok := a.M[b]; ok {
					rendezvous = m
				}
			}
			add(ts.Implies(both, ts.Or(ts.Not(ts.Eq(a.T, b.T)), rendezvous)))
		}
	}
	capOf := map[*CEvent]*Term{}
	for _, e := range evs {
		if e.Ch != nil {
			cp := ts.BV(0, 64)
			for k := len(e.Ch.Alts) - 1; k >= 0; k-- {
				// capacity is stored at creation; read it from any heap that has the object: it never changes
				cp = ts.Ite(e.Ch.Alts[k].G, ex.chanCaps[e.Ch.Alts[k].Obj], cp)
			}
			capOf[e] = cp
			add(ts.Implies(e.F, ex.chanNonNil(e.Ch))) // operations on a nil channel never complete
		}
	}
	matchedS := map[*CEvent][]*Term{}
	for _, r := range recvs {
		var ms []*Term
		for s, m := range r.M {
			same := ex.sameChan(s.Ch, r.Ch)
			unbuf := ts.Eq(capOf[s], ts.BV(0, 64))
			add(ts.Implies(m, ts.And(s.F, r.F, same, ts.Ite(unbuf, ts.Eq(s.T, r.T), lt(s, r)))))
			ms = append(ms, m)
			matchedS[s] = append(matchedS[s], m)
		}
		// a receive completes by taking a value or because the channel is closed and drained, never both
		alts := append(append([]*Term{}, ms...), r.CR)
		add(ts.Eq(r.F, ts.Or(alts...)))
		for i := range alts {
			for j := i + 1; j < len(alts); j++ {
				add(ts.Not(ts.And(alts[i], alts[j])))
			}
		}
		// closed and drained: some close fired earlier and every fired send on the channel was received earlier
		var closedBefore []*Term
		for _, k := range closes {
			closedBefore = append(closedBefore, ts.And(k.F, lt(k, r), ex.sameChan(k.Ch, r.Ch)))
		}
		drained := ts.True
		for _, s := range sends {
			same := ex.sameChan(s.Ch, r.Ch)
			if same.IsFalse() {
				continue
			}
			var got []*Term
			for _, r2 := range recvs {
				if m, ok := r2.M[s]; ok && r2 != r {
					got = append(got, ts.And(m, lt(r2, r)))
				}
			}
			drained = ts.And(drained, ts.Implies(ts.And(s.F, same), ts.Or(got...)))
		}
		add(ts.Implies(r.CR, ts.And(ts.Or(closedBefore...), drained)))
	}
	for _, s := range sends {
		ms := matchedS[s]
		for i := range ms {
			for j := i + 1; j < len(ms); j++ {
				add(ts.Not(ts.And(ms[i], ms[j])))
			}
		}
		unbuf := ts.Eq(capOf[s], ts.BV(0, 64))
		add(ts.Implies(ts.And(s.F, unbuf), ts.Or(ms...)))
		// buffered: room in the buffer when the send completes
		var before, taken []*Term
		for _, s2 := range sends {
			if s2 != s {
				before = append(before, ts.And(s2.F, lt(s2, s), ex.sameChan(s2.Ch, s.Ch)))
			}
		}
		for _, r := range recvs {
			if same := ex.sameChan(r.Ch, s.Ch); !same.IsFalse() {
				taken = append(taken, ts.And(r.F, ts.Not(r.CR), lt(r, s), same))
			}
		}
		occ := ts.Sub(count(before), count(taken))
		add(ts.Implies(ts.And(s.F, ts.Not(unbuf)), ts.Ult(ts.Zext(occ, 64), capOf[s])))
	}
	// FIFO: matches on one channel preserve order, and a receive takes the oldest value
	for _, r := range recvs {
		for s, m := range r.M {
			for _, r2 := range recvs {
				if r2 == r {
					continue
				}
				for s2, m2 := range r2.M {
					if s2 == s {
						continue
					}
					same := ex.sameChan(s.Ch, s2.Ch)
					if same.IsFalse() {
						continue
					}
					add(ts.Implies(ts.And(m, m2, same), ts.Eq(lt(s, s2), lt(r, r2))))
				}
			}
			for _, s2 := range sends {
				if s2 == s {
					continue
				}
				same := ex.sameChan(s.Ch, s2.Ch)
				if same.IsFalse() {
					continue
				}
				// an older fired send on the same channel has been received before
				var got []*Term
				for _, r2 := range recvs {
					if m2, ok := r2.M[s2]; ok {
						got = append(got, ts.And(m2, lt(r2, r)))
					}
				}
				add(ts.Implies(ts.And(m, s2.F, lt(s2, s), same), ts.Or(got...)))
			}
		}
	}
	// WaitGroup
	wgs := map[string][]*CEvent{}
	for _, e := range evs {
		if e.WG != "" {
			wgs[e.WG] = append(wgs[e.WG], e)
		}
	}
	counterBefore := func(key string, at *CEvent, inclusive bool) *Term {
		n := zero8
		for _, e := range wgs[key] {
			if e == at && !inclusive {
				continue
			}
			b := ts.And(e.F, ts.Or(lt(e, at), ts.Bool(e == at)))
			switch e.Kind {
			case "wgadd":
				n = ts.Add(n, ts.Ite(b, e.N, zero8))
			case "wgdone":
				n = ts.Sub(n, ts.Ite(b, one8, zero8))
			}
		}
		return n
	}
	for key, es := range wgs {
		for _, e := range es {
			switch e.Kind {
			case "wgwait":
				add(ts.Implies(e.F, ts.Eq(counterBefore(key, e, false), zero8)))
			case "wgdone", "wgadd":
				neg := ts.Slt(counterBefore(key, e, true), zero8)
				c.Panics = append(c.Panics, Obligation{Kind: "panic", Cond: ts.And(e.F, neg), Label: "sync: negative WaitGroup counter", Pos: e.Pos})
			}
		}
	}
	// panics of the channel model
	for _, k := range closes {
		for _, k2 := range closes {
			if k2 != k {
				c.Panics = append(c.Panics, Obligation{Kind: "panic", Cond: ts.And(k.F, k2.F, lt(k2, k), ex.sameChan(k.Ch, k2.Ch)), Label: "close of closed channel", Pos: k.Pos})
			}
		}
		c.Panics = append(c.Panics, Obligation{Kind: "panic", Cond: ts.And(k.F, ts.Not(ex.chanNonNil(k.Ch))), Label: "close of nil channel", Pos: k.Pos})
		for _, s := range sends {
			same := ex.sameChan(s.Ch, k.Ch)
			if same.IsFalse() {
				continue
			}
			// a send that is attempted (reached) on a channel closed before it completes, or while it blocks, panics
			// (a send case of a select whose group completed through another case was not attempted)
			pending := ts.Not(s.F)
			if s.Sel != 0 {
				for _, o := range evs {
					if o.Sel == s.Sel {
						pending = ts.And(pending, ts.Not(o.F))
					}
				}
			}
			c.Panics = append(c.Panics, Obligation{Kind: "panic", Cond: ts.And(reached(s), k.F, same, ts.Or(pending, ts.And(s.F, lt(k, s)))), Label: "send on closed channel", Pos: s.Pos})
		}
	}
	// ---- maximality and deadlock / leak ----
	blocked := func(e *CEvent) *Term {
		if e.Sel != 0 {
			grpFired := ts.False
			for _, o := range evs {
				if o.Sel == e.Sel {
					grpFired = ts.Or(grpFired, o.F)
				}
			}
			return ts.And(reached(e), ts.Not(grpFired))
		}
		return ts.And(reached(e), ts.Not(e.F))
	}
	finalOcc := func(ch *VChan) *Term {
		var snd, rcv []*Term
		for _, s := range sends {
			snd = append(snd, ts.And(s.F, ex.sameChan(s.Ch, ch)))
		}
		for _, r := range recvs {
			rcv = append(rcv, ts.And(r.F, ts.Not(r.CR), ex.sameChan(r.Ch, ch)))
		}
		return ts.Sub(count(snd), count(rcv))
	}
	closedFinally := func(ch *VChan) *Term {
		var cs []*Term
		for _, k := range closes {
			cs = append(cs, ts.And(k.F, ex.sameChan(k.Ch, ch)))
		}
		return ts.Or(cs...)
	}
	maximal := ts.True
	var someBlocked []*Term
	for _, e := range evs {
		if !e.Blocking {
			continue
		}
		b := blocked(e)
		someBlocked = append(someBlocked, b)
		switch e.Kind {
		case "send":
			// a blocked sender: no blocked receiver to meet (unbuffered) / buffer full (buffered)
			for _, r := range recvs {
				if same := ex.sameChan(r.Ch, e.Ch); !same.IsFalse() && r.Th != e.Th {
					maximal = ts.And(maximal, ts.Not(ts.And(b, blocked(r), same)))
				}
			}
			unbuf := ts.Eq(capOf[e], ts.BV(0, 64))
			maximal = ts.And(maximal, ts.Implies(ts.And(b, ts.Not(unbuf), ex.chanNonNil(e.Ch)), ts.Eq(ts.Zext(finalOcc(e.Ch), 64), capOf[e])))
		case "recv":
			// a blocked receiver: nothing buffered and not closed
			maximal = ts.And(maximal, ts.Implies(ts.And(b, ex.chanNonNil(e.Ch)), ts.And(ts.Eq(finalOcc(e.Ch), zero8), ts.Not(closedFinally(e.Ch)))))
		case "wgwait":
			final := zero8
			for _, w := range wgs[e.WG] {
				switch w.Kind {
				case "wgadd":
					final = ts.Add(final, ts.Ite(w.F, w.N, zero8))
				case "wgdone":
					final = ts.Sub(final, ts.Ite(w.F, one8, zero8))
				}
			}
			maximal = ts.And(maximal, ts.Implies(b, ts.Not(ts.Eq(final, zero8))))
		}
	}
	c.Deadlock = ts.And(maximal, ts.Or(someBlocked...))
	// ---- data races: two conflicting accesses of different goroutines adjacent in some execution ----
	var races []*Term
	for _, accs := range c.Stores {
		for i, a := range accs {
			for _, b := range accs[i+1:] {
				if a.Th == b.Th || (a.Kind == "load" && b.Kind == "load") {
					continue
				}
				adj := ts.Or(ts.Eq(ts.Add(a.T, one8), b.T), ts.Eq(ts.Add(b.T, one8), a.T))
				races = append(races, ts.And(a.F, b.F, adj))
			}
		}
	}
	c.Race = ts.Or(races...)
}
