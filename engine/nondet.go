package main

import (
	"fmt"
	"go/types"
	"strconv"
	"strings"
)

type ndCtx struct {
	ex    *Exec
	heap  Heap // objects created
	b     Bounds
	nan   bool
	count map[*types.Named]int
	rec   int
}

func bitsFor(n int) int {
	w := 1
	for (1 << uint(w)) <= n {
		w++
	}
	return w
}

func (ex *Exec) parseOpt(opt string) (Bounds, bool, int) {
	b := ex.B
	nan := false
	rec := b.PtrDepth
	for _, kv := range strings.Split(opt, ",") {
		kv = strings.TrimSpace(kv)
		if kv == "" {
			continue
		}
		p := strings.SplitN(kv, "=", 2)
		if len(p) != 2 {
			panic("bad nondet option " + kv)
		}
		n, err := strconv.Atoi(p[1])
		if err != nil {
			panic("bad nondet option " + kv)
		}
		switch p[0] {
		case "len":
			b.SliceLen = n
		case "cap":
			b.SpareCap = n
		case "map":
			b.MapLen = n
		case "str":
			b.StrLen = n
		case "depth":
			rec = n
		case "nan":
			nan = n != 0
		default:
			panic("bad nondet option " + kv)
		}
	}
	return b, nan, rec
}

func (ex *Exec) nondet(fr *Frame, t types.Type, name string, pc *Term, opt string) Value {
	if o, ok := ex.optOverride[name]; ok {
		opt = o
	}
	b, nan, rec := ex.parseOpt(opt)
	c := &ndCtx{ex: ex, heap: Heap{}, b: b, nan: nan, count: map[*types.Named]int{}, rec: rec}
	v, ok := c.mk(t, name)
	if !ok {
		v = ex.zero(t)
	}
	for o, val := range c.heap {
		fr.heap[o] = val
	}
	ex.Nondets = append(ex.Nondets, NondetRec{Name: name, G: pc, Val: v, Heap: c.heap, Typ: t})
	return v
}

func (c *ndCtx) boundedLen(label string, max int) *Term {
	ts := c.ex.ts
	if max == 0 {
		return ts.BV(0, 64)
	}
	w := bitsFor(max)
	v := ts.Var(label, w)
	if (1<<uint(w))-1 > max {
		c.ex.Assumes = append(c.ex.Assumes, ts.Ule(v, ts.BV(uint64(max), w)))
	}
	return ts.Zext(v, 64)
}

// mk builds an arbitrary value of type t. ok=false means a recursion cut: the enclosing
// pointer/slice/map must be nil/empty.
func (c *ndCtx) mk(t types.Type, label string) (Value, bool) {
	ex := c.ex
	ts := ex.ts
	if n, ok := t.(*types.Named); ok {
		if _, isStruct := n.Underlying().(*types.Struct); isStruct {
			if c.count[n] >= c.rec {
				return nil, false
			}
			c.count[n]++
			defer func() { c.count[n]-- }()
		}
	}
	if a, ok := t.(*types.Alias); ok {
		return c.mk(types.Unalias(a), label)
	}
	switch u := t.Underlying().(type) {
	case *types.Basic:
		switch {
		case u.Info()&types.IsBoolean != 0:
			return &VBV{ts.Var(label, 0)}, true
		case u.Info()&types.IsInteger != 0:
			w, _ := ex.intW(t)
			return &VBV{ts.Var(label, w)}, true
		case u.Info()&types.IsFloat != 0:
			w, _ := ex.intW(t)
			v := ts.Var(label, w)
			if !c.nan {
				ex.Assumes = append(ex.Assumes, ts.Not(ts.FpIsNaN(v)))
			}
			return &VBV{v}, true
		case u.Info()&types.IsComplex != 0:
			w := 64
			if u.Kind() == types.Complex64 {
				w = 32
			}
			re, im := ts.Var(label+".re", w), ts.Var(label+".im", w)
			if !c.nan {
				ex.Assumes = append(ex.Assumes, ts.Not(ts.FpIsNaN(re)), ts.Not(ts.FpIsNaN(im)))
			}
			return &VCplx{re, im}, true
		case u.Info()&types.IsString != 0:
			s := &VStr{Len: c.boundedLen(label+".len", c.b.StrLen), B: make([]*Term, c.b.StrLen)}
			for i := range s.B {
				s.B[i] = ts.Var(fmt.Sprintf("%s.b%d", label, i), 8)
			}
			return s, true
		case u.Kind() == types.UnsafePointer:
			return &VPtr{}, true
		}
	case *types.Pointer:
		ev, ok := c.mk(u.Elem(), label+".p")
		if !ok {
			return &VPtr{}, true
		}
		o := ex.newObj(u.Elem(), label+".p")
		c.heap[o] = ev
		return &VPtr{Alts: []PtrAlt{{G: ts.Var(label+".nonnil", 0), Obj: o}}}, true
	case *types.Slice:
		n := c.b.SliceLen + c.b.SpareCap
		elems := make([]Value, 0, n)
		cut := false
		for i := 0; i < n; i++ {
			ev, ok := c.mk(u.Elem(), fmt.Sprintf("%s.e%d", label, i))
			if !ok {
				cut = true
				break
			}
			elems = append(elems, ev)
		}
		nonnil := ts.Var(label+".nonnil", 0)
		if cut {
			o := ex.newObj(types.NewArray(u.Elem(), 0), label+".arr")
			o.N = 0
			c.heap[o] = &VArr{}
			z := ts.BV(0, 64)
			return &VSlice{[]SliceAlt{{nonnil, o, z, z, z}}}, true
		}
		o := ex.newObj(types.NewArray(u.Elem(), int64(n)), label+".arr")
		o.N = n
		c.heap[o] = &VArr{elems}
		ln := c.boundedLen(label+".len", c.b.SliceLen)
		spare := c.boundedLen(label+".spare", c.b.SpareCap)
		return &VSlice{[]SliceAlt{{nonnil, o, ts.BV(0, 64), ln, ts.Add(ln, spare)}}}, true
	case *types.Map:
		if types.IsInterface(u.Key()) {
			return &VMap{}, true
		}
		nonnil := ts.Var(label+".nonnil", 0)
		mc := &VMapC{}
		for i := 0; i < c.b.MapLen; i++ {
			kv, ok1 := c.mk(u.Key(), fmt.Sprintf("%s.k%d", label, i))
			vv, ok2 := c.mk(u.Elem(), fmt.Sprintf("%s.v%d", label, i))
			if !ok1 || !ok2 {
				break
			}
			p := ts.Var(fmt.Sprintf("%s.has%d", label, i), 0)
			if i > 0 {
				ex.Assumes = append(ex.Assumes, ts.Implies(p, mc.Slots[i-1].P))
			}
			for j := 0; j < i; j++ {
				ex.Assumes = append(ex.Assumes, ts.Not(ts.And(p, mc.Slots[j].P, ex.valueEq(u.Key(), kv, mc.Slots[j].K))))
			}
			mc.Slots = append(mc.Slots, MapSlot{p, kv, vv})
		}
		o := ex.newObj(u, label+".map")
		c.heap[o] = mc
		return &VMap{[]MapAlt{{nonnil, o}}}, true
	case *types.Struct:
		f := make([]Value, u.NumFields())
		for i := range f {
			fv, ok := c.mk(u.Field(i).Type(), label+"."+u.Field(i).Name())
			if !ok {
				return nil, false
			}
			f[i] = fv
		}
		return &VStruct{f}, true
	case *types.Array:
		e := make([]Value, int(u.Len()))
		for i := range e {
			ev, ok := c.mk(u.Elem(), fmt.Sprintf("%s.a%d", label, i))
			if !ok {
				return nil, false
			}
			e[i] = ev
		}
		return &VArr{e}, true
	case *types.Interface:
		return &VIface{}, true
	case *types.Signature:
		return &VFunc{}, true
	case *types.Chan:
		return &VChan{}, true
	}
	panic(unsupported("nondet of " + t.String()))
}

// ---------- model -> concrete JSON ----------

type JV struct {
	K   string  `json:"k"`
	V   string  `json:"v,omitempty"`
	Nil bool    `json:"nil,omitempty"`
	Len int     `json:"len,omitempty"`
	Cap int     `json:"cap,omitempty"`
	E   []*JV   `json:"e,omitempty"`
	KV  [][]*JV `json:"kv,omitempty"`
	B   []int   `json:"b,omitempty"`
	Re  string  `json:"re,omitempty"`
	Im  string  `json:"im,omitempty"`
}

type concretizer struct {
	ex   *Exec
	env  map[string]uint64
	memo map[int]uint64
	heap Heap
}

func (c *concretizer) ev(t *Term) uint64 {
	v, err := c.ex.ts.Eval(t, c.env, c.memo)
	if err != nil {
		panic(err)
	}
	return v
}

func (c *concretizer) conc(v Value, t types.Type) *JV {
	switch x := v.(type) {
	case *VBV:
		if isBool(t) {
			return &JV{K: "bool", V: strconv.FormatUint(c.ev(x.T), 10)}
		}
		w, signed := c.ex.intW(t)
		b := c.ev(x.T)
		if signed && !isFloat(t) {
			b = uint64(sext64(b, w))
		}
		return &JV{K: "num", V: strconv.FormatUint(b, 10)}
	case *VCplx:
		return &JV{K: "cplx", Re: strconv.FormatUint(c.ev(x.Re), 10), Im: strconv.FormatUint(c.ev(x.Im), 10)}
	case *VStr:
		n := int(c.ev(x.Len))
		j := &JV{K: "str", B: make([]int, n)}
		for i := 0; i < n && i < len(x.B); i++ {
			j.B[i] = int(c.ev(x.B[i]))
		}
		return j
	case *VPtr:
		for _, a := range x.Alts {
			if c.ev(a.G) == 1 {
				et := t.Underlying().(*types.Pointer).Elem()
				return &JV{K: "ptr", E: []*JV{c.conc(navigate(c.heap[a.Obj], a.Path), et)}}
			}
		}
		return &JV{K: "ptr", Nil: true}
	case *VSlice:
		for _, a := range x.Alts {
			if c.ev(a.G) == 1 {
				et := t.Underlying().(*types.Slice).Elem()
				off, ln, cp := int(c.ev(a.Off)), int(c.ev(a.Len)), int(c.ev(a.Cap))
				arr := c.heap[a.Obj].(*VArr)
				j := &JV{K: "slice", Len: ln, Cap: cp}
				for i := 0; i < cp && off+i < len(arr.E); i++ {
					j.E = append(j.E, c.conc(arr.E[off+i], et))
				}
				return j
			}
		}
		return &JV{K: "slice", Nil: true}
	case *VMap:
		for _, a := range x.Alts {
			if c.ev(a.G) == 1 {
				mt := t.Underlying().(*types.Map)
				j := &JV{K: "map", KV: [][]*JV{}}
				for _, s := range c.heap[a.Obj].(*VMapC).Slots {
					if c.ev(s.P) == 1 {
						j.KV = append(j.KV, []*JV{c.conc(s.K, mt.Key()), c.conc(s.V, mt.Elem())})
					}
				}
				return j
			}
		}
		return &JV{K: "map", Nil: true}
	case *VStruct:
		st := t.Underlying().(*types.Struct)
		j := &JV{K: "struct"}
		for i, f := range x.F {
			j.E = append(j.E, c.conc(f, st.Field(i).Type()))
		}
		return j
	case *VArr:
		et := t.Underlying().(*types.Array).Elem()
		j := &JV{K: "arr"}
		for _, e := range x.E {
			j.E = append(j.E, c.conc(e, et))
		}
		return j
	case *VIface:
		return &JV{K: "iface", Nil: true}
	case *VFunc:
		return &JV{K: "func", Nil: true}
	case *VChan:
		return &JV{K: "chan", Nil: true}
	}
	panic(fmt.Sprintf("concretize %T", v))
}
