package main

import (
	"encoding/json"
	"flag"
	"fmt"
	"os"
	"path/filepath"
	"regexp"
	"sort"
	"strconv"
	"strings"
	"time"
)

type PropSpec struct {
	ID          string
	Title       string
	Gen         PropGen
	Filter      func(in Inst, tier string) bool
	PkgSize     int
	Bounds      func(tier string) Bounds
	Timeout     func(tier string) time.Duration
	Extra       func(r *Runner) // additional, property-specific stages
	Assume      []string
	Outside     []string
	Level       string
	RunFn       func(r *Runner) // if set, replaces the mode-A pipeline entirely
	SkipKind    func(in Inst, kind string, tier string) bool
	Corpus      func(tier string, seed int64) []Inst
	AbstractMul bool
}

type KnownFinding struct {
	ID       string `json:"id"`
	Property string `json:"property"`
	Status   string `json:"status"` // open | fixed
	What     string `json:"what"`
	// front-end findings are matched by type expression and stage
	Type  string `json:"type,omitempty"`
	Stage string `json:"stage,omitempty"`
	Match string `json:"match,omitempty"` // regexp on harness name / key
}

type KnownFile struct {
	Findings []KnownFinding `json:"findings"`
	Fixed    []string       `json:"fixed"`
}

func loadKnown() *KnownFile {
	kf := &KnownFile{}
	data, err := os.ReadFile(filepath.Join(verifDir(), "known_findings.json"))
	if err == nil {
		json.Unmarshal(data, kf)
	}
	return kf
}

func (kf *KnownFile) openFinding(prop, id string) *KnownFinding {
	for i := range kf.Findings {
		f := &kf.Findings[i]
		if f.ID == id && f.Property == prop && f.Status == "open" {
			return f
		}
	}
	return nil
}

func (kf *KnownFile) frontend(prop, typ, stage string) *KnownFinding {
	for i := range kf.Findings {
		f := &kf.Findings[i]
		if f.Property == prop && f.Status == "open" && f.Type != "" && f.Type == typ && (f.Stage == "" || f.Stage == stage) {
			return f
		}
	}
	return nil
}

// Runner carries the state of one check run.
type Runner struct {
	Spec           *PropSpec
	Tier           string
	Seed           int64
	S              *Scratch
	Known          *KnownFile
	Start          time.Time
	Results        []HarnessResult
	FE             []FEFailure
	Pkgs           []*FixPkg
	Viol           []string // VIOLATION lines
	KFLines        []string
	Incons         []string // engine inconsistencies / inconclusive
	Replays        []Replayed
	Programs       int
	Extra          map[string]interface{}
	Samples        []interface{}
	Workers        int
	TVAgree        int
	ReplayOverride func(hr *HarnessResult) string
	AfterInject    func()
	Undecided      []string // thorough tier: harnesses undecided at both bounds (outside what the run explored)
	Filter         *regexp.Regexp
	Stubs          []string
}

func (r *Runner) violation(replay string, why string) {
	r.Viol = append(r.Viol, fmt.Sprintf("VIOLATION property=%s replay=%s", r.Spec.ID, replay))
	fmt.Printf("VIOLATION property=%s replay=%s\n", r.Spec.ID, replay)
	fmt.Printf("  detail: %s\n", why)
}

func (r *Runner) known(f *KnownFinding, what string) {
	line := fmt.Sprintf("KNOWN-FINDING: property=%s %s: %s", r.Spec.ID, f.ID, what)
	for _, l := range r.KFLines {
		if l == line {
			return
		}
	}
	r.KFLines = append(r.KFLines, line)
	fmt.Println(line)
}

func (r *Runner) inconsistent(msg string) {
	r.Incons = append(r.Incons, msg)
	fmt.Printf("INCONCLUSIVE property=%s %s\n", r.Spec.ID, msg)
}

func cmdRun(args []string) int {
	fs := flag.NewFlagSet("run", flag.ExitOnError)
	tier := fs.String("tier", "", "quick|thorough")
	filter := fs.String("only", "", "regexp on harness names")
	workers := fs.Int("j", 14, "workers")
	fs.BoolVar(&verbose, "v", false, "verbose")
	fs.Parse(args)
	if fs.NArg() < 1 {
		fmt.Fprintln(os.Stderr, "usage: vcheck run [-tier quick|thorough] <property>")
		return 2
	}
	id := fs.Arg(0)
	t := *tier
	if t == "" {
		t = os.Getenv("VERIF_TIER")
	}
	if t == "" {
		t = "quick"
	}
	seed := int64(1)
	if s := os.Getenv("VERIF_SEED"); s != "" {
		if v, err := strconv.ParseInt(s, 10, 64); err == nil {
			seed = v
		}
	}
	spec := propSpecs()[id]
	if spec == nil {
		fmt.Fprintln(os.Stderr, "unknown property", id)
		return 2
	}
	r := &Runner{Spec: spec, Tier: t, Seed: seed, Known: loadKnown(), Start: time.Now(), Extra: map[string]interface{}{}, Workers: *workers}
	if *filter != "" {
		r.Filter = regexp.MustCompile(*filter)
	}
	s, err := NewScratch()
	if err != nil {
		fmt.Println(err)
		return 3
	}
	r.S = s
	defer s.Close()
	if t == "thorough" {
		harnessBudget = 20 * time.Minute
	}
	if spec.RunFn != nil {
		spec.RunFn(r)
	} else {
		r.modeA()
		if spec.Extra != nil {
			spec.Extra(r)
		}
	}
	if n := len(r.Results); len(r.Undecided)*10 > n && len(r.Undecided) > 3 {
		r.inconsistent(fmt.Sprintf("%d of %d harnesses undecided at both bounds: the thorough run explored too little", len(r.Undecided), n))
	}
	r.writeEvidence()
	if len(r.Viol) > 0 {
		return 1
	}
	if len(r.Incons) > 0 {
		return 3
	}
	nred := 0
	for _, hr := range r.Results {
		if hr.Reduced != "" && hr.Status == "ok" {
			nred++
			fmt.Printf("REDUCED-BOUND property=%s harness=%s %s\n", spec.ID, hr.Name, hr.Reduced)
		}
	}
	fmt.Printf("OK property=%s tier=%s programs=%d harnesses=%d reduced_bound=%d undecided=%d wall=%.1fs\n", spec.ID, t, r.Programs, len(r.Results), nred, len(r.Undecided), time.Since(r.Start).Seconds())
	return 0
}

// modeA: generated fixtures -> goderive -> SSA -> symbolic execution -> solver -> replay.
func (r *Runner) modeA() {
	spec := r.Spec
	var insts []Inst
	corpus := Corpus
	if spec.Corpus != nil {
		corpus = spec.Corpus
	}
	for _, in := range corpus(r.Tier, r.Seed) {
		if spec.Filter == nil || spec.Filter(in, r.Tier) {
			insts = append(insts, in)
		}
	}
	r.Programs = len(insts)
	size := spec.PkgSize
	if size == 0 {
		size = 6
	}
	var pkgs []*FixPkg
	for i := 0; i < len(insts); i += size {
		j := i + size
		if j > len(insts) {
			j = len(insts)
		}
		rel := fmt.Sprintf("vxfix/%s/p%03d", strings.ToLower(spec.ID), i/size)
		pkgs = append(pkgs, buildFixPkg(rel, insts[i:j], r.gen(), r.Tier))
	}
	r.stage("fixtures generated")
	r.generate(pkgs)
	r.stage("goderive run on fixture packages")
	good, bad := r.loadAll(pkgs)
	// split failing groups into singletons to attribute front-end failures
	var retry []*FixPkg
	for _, p := range bad {
		if len(p.Insts) == 1 {
			r.feFailure(p, "goderive", p.GenOut)
			os.RemoveAll(filepath.Join(r.S.Repo, p.Rel))
			continue
		}
		os.RemoveAll(filepath.Join(r.S.Repo, p.Rel))
		for k, in := range p.Insts {
			retry = append(retry, buildFixPkg(fmt.Sprintf("%s_%d", p.Rel, k), []Inst{in}, r.gen(), r.Tier))
		}
	}
	if len(retry) > 0 {
		r.generate(retry)
		g2, b2 := r.loadAll(retry)
		good = append(good, g2...)
		for _, p := range b2 {
			r.feFailure(p, "goderive", p.GenOut)
			os.RemoveAll(filepath.Join(r.S.Repo, p.Rel))
		}
		r.stage("front-end failures attributed")
	}
	r.Pkgs = good
	r.symx(good)
	r.stage("symbolic execution and solving done")
	if verbose {
		rs := append([]HarnessResult{}, r.Results...)
		sort.Slice(rs, func(i, j int) bool { return rs[i].SolveMs > rs[j].SolveMs })
		for i := 0; i < len(rs) && i < 15; i++ {
			fmt.Fprintf(os.Stderr, "  slow: %-34s %-12s solve=%dms exec=%dms obls=%d terms=%d\n", rs[i].Name, rs[i].Status, rs[i].SolveMs, rs[i].ExecMs, len(rs[i].Obls), rs[i].Terms)
		}
	}
}

func (r *Runner) stage(msg string) {
	if verbose {
		fmt.Fprintf(os.Stderr, "[stage %.1fs] %s\n", time.Since(r.Start).Seconds(), msg)
	}
}

// loadAll type-checks the generated packages; returns those that are fine and those that are not
// (goderive failed, or its output does not parse / type-check).
func (r *Runner) loadAll(pkgs []*FixPkg) (good, bad []*FixPkg) {
	var pats []string
	for _, p := range pkgs {
		if !p.GenOK {
			bad = append(bad, p)
			continue
		}
		pats = append(pats, "./"+p.Rel)
	}
	if len(pats) == 0 {
		return
	}
	errs := typeCheck(r.S.Repo, pats, goEnv())
	for _, p := range pkgs {
		if !p.GenOK {
			continue
		}
		if e, ok := errs[modPath+"/"+p.Rel]; ok {
			p.GenOK = false
			p.GenOut = "TYPECHECK: " + e
			bad = append(bad, p)
		} else {
			good = append(good, p)
		}
	}
	return
}

func (r *Runner) gen() PropGen {
	spec := r.Spec
	return func(g *Gen, in Inst, tier string) []HarnessSrc {
		hs := spec.Gen(g, in, tier)
		if spec.SkipKind == nil {
			return hs
		}
		var out []HarnessSrc
		for _, h := range hs {
			if !spec.SkipKind(in, h.Kind, tier) {
				out = append(out, h)
			}
		}
		return out
	}
}

func (r *Runner) generate(pkgs []*FixPkg) {
	parallel(len(pkgs), r.Workers, func(i int) {
		p := pkgs[i]
		if err := r.S.writePkg(p); err != nil {
			p.GenOut = err.Error()
			return
		}
		r.S.runGoderive(p)
	})
}

func (r *Runner) feFailure(p *FixPkg, stage, out string) {
	if strings.HasPrefix(out, "TYPECHECK: ") {
		stage = "typecheck"
	}
	fe := FEFailure{Pkg: p.Rel, Stage: stage, Output: trunc(out, 1500)}
	for _, in := range p.Insts {
		fe.Types = append(fe.Types, in.T.Expr())
		fe.IDs = append(fe.IDs, in.ID)
	}
	r.FE = append(r.FE, fe)
	if len(p.Insts) == 1 {
		if f := r.Known.frontend(r.Spec.ID, p.Insts[0].T.Expr(), stage); f != nil {
			r.known(f, fmt.Sprintf("type %s: %s", p.Insts[0].T.Expr(), f.What))
			return
		}
	}
	dir := saveReplay(r.S, r.Spec.ID, p.Rel, &Model{Harness: "frontend_" + filepath.Base(p.Rel)}, stage+": "+trunc(out, 800))
	r.violation(dir, fmt.Sprintf("front end (%s) failed for %v: %s", stage, fe.Types, trunc(out, 400)))
}

func asStrings(v interface{}) []string {
	if s, ok := v.([]string); ok {
		return s
	}
	return nil
}

func trunc(s string, n int) string {
	if len(s) > n {
		return s[:n] + "..."
	}
	return s
}

func (r *Runner) symx(pkgs []*FixPkg) {
	if len(pkgs) == 0 {
		return
	}
	var pats []string
	relOf := map[string]*FixPkg{}
	for _, p := range pkgs {
		pats = append(pats, "./"+p.Rel)
		relOf[modPath+"/"+p.Rel] = p
	}
	ld, err := loadProgram(r.S.Repo, pats, goEnv())
	if err != nil {
		r.inconsistent("loading fixtures failed: " + err.Error())
		return
	}
	b := DefaultBounds
	if r.Spec.Bounds != nil {
		b = r.Spec.Bounds(r.Tier)
	}
	if r.Spec.Timeout != nil {
		solverTimeout = r.Spec.Timeout(r.Tier)
	}
	opts := RunOpts{Bounds: b, Workers: r.Workers, CrossCheck: r.Tier == "thorough", Filter: r.Filter, AbstractMul: r.Spec.AbstractMul}
	if r.Tier == "thorough" && r.Spec.Bounds != nil {
		q := r.Spec.Bounds("quick")
		if q != b {
			opts.Fallback = &q
		}
	}
	res := runHarnesses(ld, opts)
	r.Results = append(r.Results, res...)
	r.Extra["bounds"] = b
	r.classify(res)
	// translator validation on a sample of instantiations (2 per package)
	if r.Filter == nil {
		agree, disagree := r.runTV(ld, pkgs, opts, 2)
		r.Extra["translator_validation"] = map[string]int{"agreements": agree, "disagreements": disagree}
		r.TVAgree += agree
	}
}

// classify turns harness results into VIOLATION / KNOWN-FINDING / INCONCLUSIVE lines (with native replay).
func (r *Runner) classify(res []HarnessResult) {
	kfRe := regexp.MustCompile(`__KF_([A-Za-z0-9]+)$`)
	for i := range res {
		hr := &res[i]
		rel := strings.TrimPrefix(hr.Pkg, modPath+"/")
		kfID := ""
		if m := kfRe.FindStringSubmatch(hr.Name); m != nil {
			kfID = m[1]
		}
		switch hr.Status {
		case "ok":
			// a known-finding twin that no longer fails: the finding is gone; say nothing
		case "violation":
			var model *Model
			var what string
			for _, o := range hr.Obls {
				if o.Status == "sat" && o.Kind != "reach" && o.Model != nil {
					model = o.Model
					what = o.Kind + ": " + o.Label + " " + o.Fn + " " + o.Pos
					break
				}
			}
			if model == nil {
				r.inconsistent("violation without model in " + hr.Name)
				continue
			}
			if len(r.Viol) >= 3 && kfID == "" {
				r.Extra["unreplayed_sat_harnesses"] = append(asStrings(r.Extra["unreplayed_sat_harnesses"]), hr.Name+": "+what)
				continue
			}
			outcome := ""
			if r.ReplayOverride != nil {
				outcome = r.ReplayOverride(hr)
			}
			if outcome == "" {
				outcome = r.S.replayModel(rel, model)
			}
			rp := Replayed{Harness: hr.Name, Pkg: rel, Outcome: outcome}
			reproduced := strings.HasPrefix(outcome, "assert-failed") || strings.HasPrefix(outcome, "panic")
			if !reproduced {
				r.Replays = append(r.Replays, rp)
				r.inconsistent(fmt.Sprintf("ENGINE-INCONSISTENCY: model for %s (%s) did not reproduce natively: %s", hr.Name, what, outcome))
				saveReplay(r.S, r.Spec.ID+"_unreproduced", rel, model, what+" / native outcome: "+outcome)
				continue
			}
			if kfID != "" {
				if f := r.Known.openFinding(r.Spec.ID, kfID); f != nil {
					r.Replays = append(r.Replays, rp)
					r.known(f, f.What)
					continue
				}
			}
			dir := saveReplay(r.S, r.Spec.ID, rel, model, what+" / native outcome: "+outcome)
			rp.Path = dir
			r.Replays = append(r.Replays, rp)
			r.violation(dir, fmt.Sprintf("%s: %s (reproduced natively: %s)", hr.Name, what, trunc(outcome, 200)))
		case "vacuous":
			r.inconsistent(fmt.Sprintf("vacuous harness %s: %s", hr.Name, hr.Detail))
		case "unsupported":
			if r.Tier == "thorough" && hr.Reduced != "" && (strings.Contains(hr.Detail, "more than") || strings.Contains(hr.Detail, "budget exceeded")) {
				// an engine limit (modelled map slots, events) hit at the deeper AND at the quick bounds by a shape the quick tier does not contain
				r.Undecided = append(r.Undecided, hr.Name+": "+hr.Detail)
				fmt.Printf("UNDECIDED property=%s harness=%s %s (also at the quick bounds)\n", r.Spec.ID, hr.Name, hr.Detail)
				continue
			}
			r.inconsistent(fmt.Sprintf("harness %s uses a construct outside the encoder: %s", hr.Name, trunc(hr.Detail, 3000)))
		default:
			if kfID != "" {
				// the un-carved twin of a known finding could not be decided within the budget: it only serves to
				// print the KNOWN-FINDING line, the carved main harness carries the claim
				r.Extra["undecided_known_finding_twins"] = append(asStrings(r.Extra["undecided_known_finding_twins"]), hr.Name+": "+hr.Detail)
				continue
			}
			if r.Tier == "thorough" && hr.Reduced != "" {
				// thorough tier only: undecided at the deeper bounds AND at the quick bounds (a harness kind or a
				// VERIF_SEED-chosen deep shape that the quick tier does not contain). It is outside what this run
				// explored; it is listed, never counted as held.
				r.Undecided = append(r.Undecided, hr.Name+": "+hr.Detail)
				fmt.Printf("UNDECIDED property=%s harness=%s %s (also at the quick bounds)\n", r.Spec.ID, hr.Name, hr.Detail)
				continue
			}
			r.inconsistent(fmt.Sprintf("harness %s inconclusive: %s", hr.Name, hr.Detail))
		}
	}
}

// ---------- evidence ----------

func (r *Runner) writeEvidence() {
	spec := r.Spec
	nObl, nUnsat, nSat, nOther := 0, 0, 0, 0
	bySolver := map[string]int{}
	var solveMs, execMs int64
	funcs := map[string]int{}
	nontrivial := 0
	kinds := map[string]int{}
	for _, hr := range r.Results {
		solveMs += hr.SolveMs
		execMs += hr.ExecMs
		for f, n := range hr.Funcs {
			funcs[f] = n
		}
		reached := false
		for _, o := range hr.Obls {
			nObl++
			kinds[o.Kind]++
			switch o.Status {
			case "unsat":
				nUnsat++
			case "sat":
				nSat++
				if o.Kind == "reach" {
					reached = true
				}
			default:
				nOther++
			}
			if o.Solver != "" {
				bySolver[o.Solver]++
			}
		}
		if reached {
			nontrivial++
		}
	}
	var samples []interface{}
	samples = append(samples, r.Samples...)
	for i, hr := range r.Results {
		if i%(len(r.Results)/3+1) == 0 && len(samples) < 6 {
			var src string
			for _, p := range r.Pkgs {
				for _, h := range p.Harnesses {
					if h.Name == hr.Name && modPath+"/"+p.Rel == hr.Pkg {
						src = h.Src
					}
				}
			}
			var obls []string
			for _, o := range hr.Obls {
				obls = append(obls, fmt.Sprintf("%s %q -> %s (%s, %d ms, %d nodes)", o.Kind, o.Label, o.Status, o.Solver, o.Ms, o.Nodes))
				if len(obls) > 8 {
					break
				}
			}
			samples = append(samples, map[string]interface{}{"harness": hr.Name, "source": src, "status": hr.Status, "obligations": obls, "terms": hr.Terms})
		}
	}
	if len(samples) == 0 {
		samples = append(samples, "no harness executed")
	}
	// genFuncs: generated (non-vx, non-harness) functions encoded
	var fnNames []string
	instrs := 0
	for f, n := range funcs {
		fnNames = append(fnNames, f)
		instrs += n
	}
	sort.Strings(fnNames)
	if len(fnNames) > 60 {
		fnNames = append(fnNames[:60], fmt.Sprintf("... and %d more", len(fnNames)-60))
	}
	cov := map[string]interface{}{
		"evaluations":                   max(nObl, 1),
		"distinct_nontrivial":           nontrivial,
		"rule":                          "one harness per (property clause, type instantiation); evaluations = solver obligations discharged (assert/panic/unwind/bound/reach); a harness counts as distinct and non-trivial when its reachability witness (path condition of its assertion under all assumptions) is sat",
		"samples":                       samples,
		"programs":                      r.Programs,
		"obligations":                   nObl,
		"discharged":                    nUnsat + nSat,
		"verdicts":                      map[string]int{"unsat": nUnsat, "sat": nSat, "other": nOther},
		"obligation_kinds":              kinds,
		"by_solver":                     bySolver,
		"solver_ms":                     solveMs,
		"symbolic_execution_ms":         execMs,
		"functions_encoded":             fnNames,
		"functions_encoded_n":           len(funcs),
		"ssa_instructions":              instrs,
		"frontend_failures":             r.FE,
		"replays":                       r.Replays,
		"known_findings_hit":            r.KFLines,
		"inconclusive":                  r.Incons,
		"outside_claim":                 spec.Outside,
		"states":                        max(nObl, 1),
		"transitions":                   max(instrs, 1),
		"traces_validated_against_impl": len(r.Replays) + r.TVAgree,
		"explanation":                   "bounded symbolic execution of the real SSA of freshly generated code; every verdict is an SMT solver answer over all values within the bounds",
	}
	var reduced []map[string]string
	for _, hr := range r.Results {
		if hr.Reduced != "" {
			reduced = append(reduced, map[string]string{"harness": hr.Name, "reduced_bound": hr.Reduced, "status": hr.Status})
		}
	}
	cov["undecided_harnesses"] = r.Undecided
	cov["undecided_harnesses_n"] = len(r.Undecided)
	cov["reduced_bound_harnesses_n"] = len(reduced)
	if len(reduced) > 40 {
		reduced = reduced[:40]
	}
	cov["reduced_bound_harnesses"] = reduced
	for k, v := range r.Extra {
		cov[k] = v
	}
	level := spec.Level
	if level == "" {
		level = "model_checking"
	}
	ev := map[string]interface{}{
		"property_id": spec.ID,
		"tier":        r.Tier,
		"seed":        r.Seed,
		"level":       level,
		"coverage":    cov,
		"assumptions": append([]string{
			"stubs: sort.* = insertion sort (the algorithm sort/slices run for n<=12), bytes.Equal/Compare, strings.Compare/Join as written in vxlib/vx/stubs.go; math.Float64bits = identity on the bit pattern",
			"floats are carried as IEEE bit patterns; ==,< lowered to bit-vector constraints (validated against the SMT FP theory by `vcheck fplemma`); NaN excluded",
			"inputs are tree-shaped (no aliasing between distinct nondet values) unless a harness builds aliasing explicitly",
			"append growth capacity is an arbitrary value >= new length",
		}, spec.Assume...),
		"wall_s":     time.Since(r.Start).Seconds(),
		"violations": len(r.Viol),
	}
	evDir := filepath.Join(verifDir(), "evidence")
	if d := os.Getenv("VERIF_EVIDENCE_DIR"); d != "" {
		evDir = d // seed experiments write their evidence elsewhere; registered commands never set this
	}
	os.MkdirAll(evDir, 0o755)
	data, _ := json.MarshalIndent(ev, "", " ")
	os.WriteFile(filepath.Join(evDir, spec.ID+".json"), data, 0o644)
}

// modeB runs hand-written harnesses that live inside a package of the repository itself (they need its
// unexported identifiers): the harness files are copied into the scratch copy of that package.
func (r *Runner) modeB(pkgRel string, filter string, native bool, bounds Bounds, extraDirs ...string) {
	// additional harness/stub files for other packages of the repository ("main" = the module root)
	for _, d := range extraDirs {
		dst := d
		if d == "main" {
			dst = "."
		}
		ents, _ := os.ReadDir(filepath.Join(verifDir(), "harness", d))
		for _, e := range ents {
			if strings.HasSuffix(e.Name(), ".go") {
				data, _ := os.ReadFile(filepath.Join(verifDir(), "harness", d, e.Name()))
				os.WriteFile(filepath.Join(r.S.Repo, dst, e.Name()), data, 0o644)
			}
		}
	}
	srcRel := pkgRel
	if pkgRel == "." {
		srcRel = "main"
	}
	src := filepath.Join(verifDir(), "harness", srcRel)
	ents, err := os.ReadDir(src)
	if err != nil {
		r.inconsistent("harness directory missing: " + src)
		return
	}
	var names []string
	fnRe := regexp.MustCompile(`(?m)^func (VX_[A-Za-z0-9_]+)\(\)`)
	pkgName := ""
	for _, e := range ents {
		if !strings.HasSuffix(e.Name(), ".go") {
			continue
		}
		data, _ := os.ReadFile(filepath.Join(src, e.Name()))
		os.WriteFile(filepath.Join(r.S.Repo, pkgRel, e.Name()), data, 0o644)
		for _, m := range fnRe.FindAllStringSubmatch(string(data), -1) {
			names = append(names, m[1])
		}
		if m := regexp.MustCompile(`(?m)^package (\w+)`).FindStringSubmatch(string(data)); m != nil {
			pkgName = m[1]
		}
	}
	sort.Strings(names)
	var rt strings.Builder
	fmt.Fprintf(&rt, "package %s\n\nimport (\n\t\"testing\"\n\n\t\"%s/vxlib/vx\"\n)\n\nfunc TestVXReplay(t *testing.T) {\n\tvx.Replay(t, map[string]func(){\n", pkgName, modPath)
	for _, n := range names {
		fmt.Fprintf(&rt, "\t\t%q: %s,\n", n, n)
	}
	rt.WriteString("\t})\n}\n")
	os.WriteFile(filepath.Join(r.S.Repo, pkgRel, "zz_vx_replay_test.go"), []byte(rt.String()), 0o644)
	if r.AfterInject != nil {
		r.AfterInject()
	}
	r.stage("harnesses injected into " + pkgRel)
	ld, err := loadProgram(r.S.Repo, []string{"./" + pkgRel}, goEnv())
	if err != nil {
		r.inconsistent("loading " + pkgRel + " with harnesses failed: " + err.Error())
		return
	}
	if len(ld.Bad) > 0 {
		for k, v := range ld.Bad {
			r.inconsistent("package does not type-check with harnesses: " + k + ": " + trunc(v, 500))
		}
		return
	}
	if r.Spec.Timeout != nil {
		solverTimeout = r.Spec.Timeout(r.Tier)
	}
	opts := RunOpts{Bounds: bounds, Workers: r.Workers, CrossCheck: r.Tier == "thorough", Filter: regexp.MustCompile(filter), Native: native}
	if r.Filter != nil {
		opts.Filter2 = r.Filter
	}
	res := runHarnesses(ld, opts)
	r.Programs += len(res)
	r.Results = append(r.Results, res...)
	r.Extra["bounds"] = bounds
	r.classify(res)
	r.stage("mode B harnesses decided")
	if verbose {
		for _, hr := range res {
			fmt.Fprintf(os.Stderr, "  %-34s %-12s solve=%dms exec=%dms obls=%d terms=%d %s\n", hr.Name, hr.Status, hr.SolveMs, hr.ExecMs, len(hr.Obls), hr.Terms, trunc(hr.Detail, 300))
		}
	}
}

// modeC: static fixture packages (harness/conc/<name>) using the concurrency helpers: copied into the scratch
// repository, generated by the freshly built goderive, and executed with the schedule as solver variables.
func (r *Runner) modeC(name string, filter string, bounds Bounds) {
	r.modeStatic("conc", name, filter, bounds, true, nil)
}

// modeStatic: a hand-written fixture package (harness/<group>/<name>, sub-directories are sibling packages)
// is copied into the scratch repository, generated by the freshly built goderive (gen may customise that
// step) and its VX_ harnesses are executed.
func (r *Runner) modeStatic(group, name string, filter string, bounds Bounds, conc bool, gen func(rel string, fp *FixPkg)) {
	src := filepath.Join(verifDir(), "harness", group, name)
	rel := "vxfix/" + group + "/" + name
	dst := filepath.Join(r.S.Repo, rel)
	os.MkdirAll(dst, 0o755)
	ents, err := os.ReadDir(src)
	if err != nil {
		r.inconsistent("fixture directory missing: " + src)
		return
	}
	var names []string
	fnRe := regexp.MustCompile(`(?m)^func (VX_[A-Za-z0-9_]+)\(\)`)
	// sibling packages
	filepath.Walk(src, func(p string, info os.FileInfo, err error) error {
		if err != nil || info.IsDir() {
			return nil
		}
		relp, _ := filepath.Rel(src, p)
		if filepath.Dir(relp) == "." {
			return nil
		}
		data, _ := os.ReadFile(p)
		os.MkdirAll(filepath.Join(dst, filepath.Dir(relp)), 0o755)
		os.WriteFile(filepath.Join(dst, relp), data, 0o644)
		return nil
	})
	for _, e := range ents {
		if e.IsDir() {
			continue
		}
		data, _ := os.ReadFile(filepath.Join(src, e.Name()))
		os.WriteFile(filepath.Join(dst, e.Name()), data, 0o644)
		if strings.HasSuffix(e.Name(), "_test.go") {
			continue
		}
		for _, m := range fnRe.FindAllStringSubmatch(string(data), -1) {
			names = append(names, m[1])
		}
	}
	sort.Strings(names)
	var rt strings.Builder
	fmt.Fprintf(&rt, "package %s\n\nimport (\n\t\"testing\"\n\n\t\"%s/vxlib/vx\"\n)\n\nfunc TestVXReplay(t *testing.T) {\n\tvx.Replay(t, map[string]func(){\n", name, modPath)
	for _, n := range names {
		fmt.Fprintf(&rt, "\t\t%q: %s,\n", n, n)
	}
	rt.WriteString("\t})\n}\n")
	os.WriteFile(filepath.Join(dst, "zz_replay_test.go"), []byte(rt.String()), 0o644)
	fp := &FixPkg{Rel: rel, Insts: []Inst{{ID: name, T: &Ty{K: "basic", Name: "fixture:" + name}}}}
	if gen != nil {
		gen(rel, fp)
	} else {
		r.S.runGoderive(fp)
	}
	if !fp.GenOK {
		r.feFailure(fp, "goderive", fp.GenOut)
		return
	}
	good, bad := r.loadAll([]*FixPkg{fp})
	for _, p := range bad {
		r.feFailure(p, "typecheck", p.GenOut)
	}
	if len(good) == 0 {
		return
	}
	r.stage("fixture " + group + "/" + name + " generated")
	ld, err := loadProgram(r.S.Repo, []string{"./" + rel}, goEnv())
	if err != nil {
		r.inconsistent("loading " + rel + " failed: " + err.Error())
		return
	}
	if r.Spec.Timeout != nil {
		solverTimeout = r.Spec.Timeout(r.Tier)
	}
	opts := RunOpts{Bounds: bounds, Workers: r.Workers, CrossCheck: r.Tier == "thorough", Filter: regexp.MustCompile(filter), Conc: conc, Filter2: r.Filter, RunInit: true, DumpDir: os.Getenv("VERIF_DUMP")}
	res := runHarnesses(ld, opts)
	r.Programs += len(res)
	r.Results = append(r.Results, res...)
	r.Extra["bounds"] = bounds
	r.classify(res)
	r.stage("static fixture harnesses decided")
	if verbose {
		for _, hr := range res {
			fmt.Fprintf(os.Stderr, "  %-34s %-12s solve=%dms exec=%dms obls=%d terms=%d %s\n", hr.Name, hr.Status, hr.SolveMs, hr.ExecMs, len(hr.Obls), hr.Terms, trunc(hr.Detail, 600))
		}
	}
}
