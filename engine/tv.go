package main

// Translator validation: for sampled instantiations a harness VX_TV_* computes the derived functions on
// arbitrary inputs and reports scalar results through vx.Observe. The engine asks the solver for several
// diverse models of the inputs, evaluates the observed terms under each model, and the same models are run
// natively; every native observation must equal the engine's value.

import (
	"encoding/json"
	"fmt"
	"math/rand"
	"os"
	"path/filepath"
	"regexp"
	"strconv"
	"strings"
	"time"

	"golang.org/x/tools/go/ssa"
)

type tvCase struct {
	Model  *Model
	Expect []string
}

func (ex *Exec) observeString(o ObserveRec, env map[string]uint64, memo map[int]uint64) (string, bool) {
	g, err := ex.ts.Eval(o.G, env, memo)
	if err != nil || g != 1 {
		return "", false
	}
	switch v := o.Val.(type) {
	case *VBV:
		x, err := ex.ts.Eval(v.T, env, memo)
		if err != nil {
			return "", false
		}
		switch {
		case isBool(o.Typ):
			return fmt.Sprintf("%s=%v", o.Name, x == 1), true
		case isInteger(o.Typ):
			w, signed := ex.intW(o.Typ)
			if signed {
				return fmt.Sprintf("%s=%d", o.Name, sext64(x, w)), true
			}
			return fmt.Sprintf("%s=%d", o.Name, x), true
		}
	case *VStr:
		n, err := ex.ts.Eval(v.Len, env, memo)
		if err != nil {
			return "", false
		}
		b := make([]byte, n)
		for i := range b {
			x, _ := ex.ts.Eval(v.B[i], env, memo)
			b[i] = byte(x)
		}
		return fmt.Sprintf("%s=%x", o.Name, string(b)), true
	}
	return "", false
}

// tvModels executes a TV harness and returns up to n diverse models with the expected observations.
func tvModels(ld *Loaded, fn *ssa.Function, opts RunOpts, pool *Pool, n int, rng *rand.Rand) ([]tvCase, string) {
	ex := NewExec(ld.Prog, opts.Bounds)
	ex.pool = pool
	ex.deadline = time.Now().Add(execBudget)
	var failed string
	func() {
		defer func() {
			if r := recover(); r != nil {
				failed = fmt.Sprint(r)
			}
		}()
		ex.callFunction(fn, nil, nil, Heap{}, ex.ts.True, 0)
	}()
	if failed != "" {
		return nil, "unsupported: " + trunc(failed, 200)
	}
	if len(ex.Observes) == 0 {
		return nil, "no observation"
	}
	var out []tvCase
	var bitVars []*Term
	for _, v := range ex.ts.Vars {
		bitVars = append(bitVars, v)
	}
	for k := 0; k < n*3 && len(out) < n; k++ {
		// diversity: fix a few random bits of random input variables
		var extra []*Term
		for j := 0; j < 3 && len(bitVars) > 0; j++ {
			v := bitVars[rng.Intn(len(bitVars))]
			if v.W == 0 {
				if rng.Intn(2) == 0 {
					extra = append(extra, v)
				} else {
					extra = append(extra, ex.ts.Not(v))
				}
			} else {
				bit := rng.Intn(v.W)
				extra = append(extra, ex.ts.Eq(ex.ts.Extract(v, bit, bit), ex.ts.BV(uint64(rng.Intn(2)), 1)))
			}
		}
		cond := ex.ts.And(append([]*Term{ex.Observes[len(ex.Observes)-1].G}, extra...)...)
		or := dischargeObl(ex, Obligation{Kind: "tv", Cond: cond, Label: "model for translator validation"}, RunOpts{}, pool)
		if or.Status != "sat" || or.Env == nil {
			continue
		}
		memo := map[int]uint64{}
		c := tvCase{Model: or.Model}
		c.Model.Harness = fn.Name()
		for _, o := range ex.Observes {
			if s, ok := ex.observeString(o, or.Env, memo); ok {
				c.Expect = append(c.Expect, s)
			}
		}
		out = append(out, c)
	}
	return out, ""
}

// runTV validates the encoder on the VX_TV_ harnesses of the given packages. Returns (agreements, disagreements).
func (r *Runner) runTV(ld *Loaded, pkgs []*FixPkg, opts RunOpts, perPkg int) (int, int) {
	pool := NewPool()
	defer pool.CloseAll()
	rng := rand.New(rand.NewSource(r.Seed))
	agree, disagree := 0, 0
	obsRe := regexp.MustCompile(`^OBSERVE\[(\d+)\]: (.*)$`)
	for _, p := range pkgs {
		var sp *ssa.Package
		for _, q := range ld.Pkgs {
			if q.Pkg.Path() == modPath+"/"+p.Rel {
				sp = q
			}
		}
		if sp == nil {
			continue
		}
		var cases []tvCase
		taken := 0
		for _, h := range p.Harnesses {
			if !strings.HasPrefix(h.Name, "VX_TV_") || taken >= perPkg {
				continue
			}
			fn := sp.Func(h.Name)
			if fn == nil {
				continue
			}
			taken++
			cs, why := tvModels(ld, fn, opts, pool, 3, rng)
			if why != "" {
				r.Extra["tv_skipped"] = append(asStrings(r.Extra["tv_skipped"]), h.Name+": "+why)
				continue
			}
			cases = append(cases, cs...)
		}
		if len(cases) == 0 {
			continue
		}
		var ms []*Model
		for _, c := range cases {
			ms = append(ms, c.Model)
		}
		data, _ := json.Marshal(ms)
		mp := filepath.Join(r.S.Dir, "tv_"+filepath.Base(p.Rel)+".json")
		os.WriteFile(mp, data, 0o644)
		env := append(goEnv(), "VX_MODELS="+mp)
		out, _, _ := runCmd(r.S.Repo, env, 5*time.Minute, "go", "test", "-v", "-vet=off", "-count=1", "-timeout", "120s", "-run", "^TestVXReplay$", "./"+p.Rel)
		got := map[int][]string{}
		for _, l := range strings.Split(out, "\n") {
			if m := obsRe.FindStringSubmatch(l); m != nil {
				i, _ := strconv.Atoi(m[1])
				got[i] = append(got[i], m[2])
			}
		}
		for i, c := range cases {
			if strings.Join(got[i], ";") == strings.Join(c.Expect, ";") && len(c.Expect) > 0 {
				agree++
				if len(r.Samples) < 2 {
					r.Samples = append(r.Samples, map[string]interface{}{"translator_validation": c.Model.Harness, "model": c.Model.Nondets, "engine_and_native_observations": c.Expect})
				}
			} else {
				disagree++
				r.inconsistent(fmt.Sprintf("ENGINE-INCONSISTENCY: translator validation of %s: engine computes %v, native run gives %v", c.Model.Harness, c.Expect, got[i]))
			}
		}
	}
	return agree, disagree
}
