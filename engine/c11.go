package main

import (
	"fmt"
	"go/ast"
	"go/parser"
	"go/token"
	"go/types"
	"os"
	"path/filepath"
	"strings"
	"time"
)

// c11EndToEnd drives the freshly built goderive over the hand-written package harness/static/c11e2e (conflicts,
// a duplicate, and user-called names of three kinds) under the four flag combinations. The exit statuses the
// property demands are checked concretely (labelled as such in the evidence); the accepted package is then
// type-checked and its call sites are decided by the solver (harnesses VX_C11_e2e_*).
func c11EndToEnd(r *Runner, rel string, fp *FixPkg) {
	dir := filepath.Join(r.S.Repo, rel)
	var rows []map[string]interface{}
	fail := func(msg string) {
		fp.GenOK, fp.GenOut = false, msg
	}
	for _, c := range []struct {
		name  string
		flags []string
	}{{"none", nil}, {"autoname", []string{"-autoname"}}, {"dedup", []string{"-dedup"}}} {
		crel := rel + "_" + c.name
		cdir := filepath.Join(r.S.Repo, crel)
		os.MkdirAll(cdir, 0o755)
		data, _ := os.ReadFile(filepath.Join(dir, "h.go"))
		os.WriteFile(filepath.Join(cdir, "h.go"), data, 0o644)
		args := append(append([]string{}, c.flags...), "./"+crel)
		out, code, _ := runCmd(r.S.Repo, goEnv(), 2*time.Minute, r.S.Goderive, args...)
		rows = append(rows, map[string]interface{}{"flags": strings.Join(c.flags, " "), "exit": code, "expected": "non-zero", "message": trunc(out, 200)})
		os.RemoveAll(cdir)
		if code == 0 {
			fail(fmt.Sprintf("goderive %s accepts a package that has a conflict and a duplicate (exit 0); the property demands failure", strings.Join(c.flags, " ")))
			r.Extra["c11_end_to_end"] = rows
			return
		}
		if strings.Contains(out, "panic:") {
			fail("goderive panics: " + trunc(out, 300))
			return
		}
	}
	r.S.runGoderive(fp, "-autoname", "-dedup")
	rows = append(rows, map[string]interface{}{"flags": "-autoname -dedup", "exit": fp.GenCode, "expected": "0", "message": trunc(fp.GenOut, 200)})
	r.Extra["c11_end_to_end"] = rows
	if !fp.GenOK {
		fp.GenOut = "goderive -autoname -dedup rejects a package whose only clashes are conflicts and duplicates: " + fp.GenOut
		return
	}
	// after -dedup: one Equal function per argument type list (three lists: *A, *B, *C)
	fset := token.NewFileSet()
	f, err := parser.ParseFile(fset, filepath.Join(dir, "derived.gen.go"), nil, 0)
	if err != nil {
		fail("derived.gen.go does not parse: " + err.Error())
		return
	}
	// after -dedup: one Equal function per argument type list, i.e. no two generated Equal functions have the
	// same parameter types
	seen := map[string]string{}
	var eqs []string
	for _, d := range f.Decls {
		fd, ok := d.(*ast.FuncDecl)
		if !ok || !strings.HasPrefix(fd.Name.Name, "deriveEqual") {
			continue
		}
		var ps []string
		for _, p := range fd.Type.Params.List {
			n := len(p.Names)
			if n == 0 {
				n = 1
			}
			for i := 0; i < n; i++ {
				ps = append(ps, types.ExprString(p.Type))
			}
		}
		key := strings.Join(ps, ",")
		eqs = append(eqs, fd.Name.Name+"("+key+")")
		if prev, dup := seen[key]; dup {
			fail(fmt.Sprintf("after -autoname -dedup the Equal plugin has two functions for the argument types (%s): %s and %s", key, prev, fd.Name.Name))
		}
		seen[key] = fd.Name.Name
	}
	r.Extra["c11_end_to_end_generated"] = eqs
}
