package main

// Hash-consed term DAG over Bool and fixed-width bit-vectors, with
// construction-time simplification. One store per harness execution.

import (
	"fmt"
	"sort"
	"strconv"
	"strings"
)

type Op uint8

const (
	OConst Op = iota
	OVar
	ONot
	OAnd
	OOr
	OIte
	OEq
	OAdd
	OSub
	OMul
	OUDiv
	OSDiv
	OURem
	OSRem
	OBAnd
	OBOr
	OBXor
	OBNot
	ONeg
	OShl
	OLshr
	OAshr
	OUlt
	OUle
	OSlt
	OSle
	OExtract
	OZext
	OSext
	OConcat
	OFpEq
	OFpLt
	OFpLe
	OFpIsNaN
	OUF // uninterpreted function application: Name = function symbol
)

var opNames = map[Op]string{
	ONot: "not", OAnd: "and", OOr: "or", OIte: "ite", OEq: "=",
	OAdd: "bvadd", OSub: "bvsub", OMul: "bvmul", OUDiv: "bvudiv", OSDiv: "bvsdiv",
	OURem: "bvurem", OSRem: "bvsrem", OBAnd: "bvand", OBOr: "bvor", OBXor: "bvxor",
	OBNot: "bvnot", ONeg: "bvneg", OShl: "bvshl", OLshr: "bvlshr", OAshr: "bvashr",
	OUlt: "bvult", OUle: "bvule", OSlt: "bvslt", OSle: "bvsle", OConcat: "concat",
}

// Term is an immutable node. W==0 means Bool, otherwise a bit-vector of width W (<=64).
type Term struct {
	Op     Op
	W      int
	Args   []*Term
	Val    uint64 // OConst
	Name   string // OVar, OUF
	P1, P2 int    // OExtract hi,lo ; OZext/OSext extra bits
	ID     int
	CT     bool  // ite-tree with constant leaves (or constant)
	ivS    uint8 // 0 unknown, 1 ok, 2 none
	ivLo   uint64
	ivHi   uint64
}

type TS struct {
	tab   map[string]*Term
	nodes []*Term
	True  *Term
	False *Term
	nvar  int
	Vars  []*Term
	UFs   map[string][]int // name -> arg widths..., last = result width
}

func NewTS() *TS {
	ts := &TS{tab: map[string]*Term{}, UFs: map[string][]int{}}
	ts.True = ts.mk(&Term{Op: OConst, W: 0, Val: 1, CT: true})
	ts.False = ts.mk(&Term{Op: OConst, W: 0, Val: 0, CT: true})
	return ts
}

func (ts *TS) mk(t *Term) *Term {
	var sb strings.Builder
	sb.WriteByte(byte(t.Op) + 'A')
	sb.WriteString(strconv.Itoa(t.W))
	switch t.Op {
	case OConst:
		sb.WriteByte(':')
		sb.WriteString(strconv.FormatUint(t.Val, 16))
	case OVar, OUF:
		sb.WriteByte(':')
		sb.WriteString(t.Name)
	case OExtract, OZext, OSext:
		sb.WriteByte(':')
		sb.WriteString(strconv.Itoa(t.P1))
		sb.WriteByte(',')
		sb.WriteString(strconv.Itoa(t.P2))
	}
	for _, a := range t.Args {
		sb.WriteByte(' ')
		sb.WriteString(strconv.Itoa(a.ID))
	}
	k := sb.String()
	if o, ok := ts.tab[k]; ok {
		return o
	}
	t.ID = len(ts.nodes)
	ts.nodes = append(ts.nodes, t)
	ts.tab[k] = t
	return t
}

func mask(w int) uint64 {
	if w >= 64 {
		return ^uint64(0)
	}
	return (uint64(1) << uint(w)) - 1
}

func sext64(v uint64, w int) int64 {
	if w >= 64 {
		return int64(v)
	}
	s := uint(64 - w)
	return int64(v<<s) >> s
}

func (ts *TS) Bool(b bool) *Term {
	if b {
		return ts.True
	}
	return ts.False
}

func (ts *TS) BV(v uint64, w int) *Term {
	if w == 0 {
		return ts.Bool(v&1 == 1)
	}
	return ts.mk(&Term{Op: OConst, W: w, Val: v & mask(w), CT: true})
}

func (ts *TS) Var(name string, w int) *Term {
	ts.nvar++
	t := ts.mk(&Term{Op: OVar, W: w, Name: fmt.Sprintf("%s!%d", sanitize(name), ts.nvar)})
	ts.Vars = append(ts.Vars, t)
	return t
}

func sanitize(s string) string {
	var sb strings.Builder
	for _, c := range s {
		if c >= 'a' && c <= 'z' || c >= 'A' && c <= 'Z' || c >= '0' && c <= '9' || c == '_' || c == '.' {
			sb.WriteRune(c)
		} else {
			sb.WriteByte('_')
		}
	}
	return sb.String()
}

func (t *Term) IsConst() bool { return t.Op == OConst }
func (t *Term) IsTrue() bool  { return t.Op == OConst && t.W == 0 && t.Val == 1 }
func (t *Term) IsFalse() bool { return t.Op == OConst && t.W == 0 && t.Val == 0 }

func (ts *TS) Not(a *Term) *Term {
	if a.W != 0 {
		panic("Not on non-bool")
	}
	if a.IsConst() {
		return ts.Bool(a.Val == 0)
	}
	if a.Op == ONot {
		return a.Args[0]
	}
	return ts.mk(&Term{Op: ONot, Args: []*Term{a}})
}

func (ts *TS) nary(op Op, in []*Term) *Term {
	// op is OAnd or OOr
	unit, zero := ts.True, ts.False
	if op == OOr {
		unit, zero = ts.False, ts.True
	}
	var flat []*Term
	var add func(t *Term) bool
	add = func(t *Term) bool {
		if t.W != 0 {
			panic("and/or on non-bool")
		}
		if t == zero {
			return false
		}
		if t == unit {
			return true
		}
		if t.Op == op {
			for _, a := range t.Args {
				if !add(a) {
					return false
				}
			}
			return true
		}
		flat = append(flat, t)
		return true
	}
	for _, t := range in {
		if !add(t) {
			return zero
		}
	}
	if len(flat) == 0 {
		return unit
	}
	sort.Slice(flat, func(i, j int) bool { return flat[i].ID < flat[j].ID })
	out := flat[:0]
	seen := map[int]bool{}
	for _, t := range flat {
		if seen[t.ID] {
			continue
		}
		seen[t.ID] = true
		out = append(out, t)
	}
	for _, t := range out {
		if t.Op == ONot && seen[t.Args[0].ID] {
			return zero
		}
	}
	if len(out) == 1 {
		return out[0]
	}
	args := make([]*Term, len(out))
	copy(args, out)
	return ts.mk(&Term{Op: op, Args: args})
}

func (ts *TS) And(a ...*Term) *Term { return ts.nary(OAnd, a) }
func (ts *TS) Or(a ...*Term) *Term  { return ts.nary(OOr, a) }
func (ts *TS) Implies(a, b *Term) *Term {
	return ts.Or(ts.Not(a), b)
}

func (ts *TS) Ite(c, a, b *Term) *Term {
	if a.W != b.W {
		panic(fmt.Sprintf("ite width mismatch %d %d", a.W, b.W))
	}
	if c.IsTrue() {
		return a
	}
	if c.IsFalse() {
		return b
	}
	if a == b {
		return a
	}
	if c.Op == ONot {
		return ts.Ite(c.Args[0], b, a)
	}
	if a.W == 0 {
		switch {
		case a.IsTrue() && b.IsFalse():
			return c
		case a.IsFalse() && b.IsTrue():
			return ts.Not(c)
		case a.IsTrue():
			return ts.Or(c, b)
		case a.IsFalse():
			return ts.And(ts.Not(c), b)
		case b.IsTrue():
			return ts.Or(ts.Not(c), a)
		case b.IsFalse():
			return ts.And(c, a)
		}
	}
	// ite(c, ite(c,x,y), z) = ite(c,x,z)
	if a.Op == OIte && a.Args[0] == c {
		a = a.Args[1]
	}
	if b.Op == OIte && b.Args[0] == c {
		b = b.Args[2]
	}
	if a == b {
		return a
	}
	return ts.mk(&Term{Op: OIte, W: a.W, Args: []*Term{c, a, b}, CT: a.CT && b.CT})
}

// pushCT applies a predicate against constant k through an ite-tree with constant leaves.
func (ts *TS) pushCT(t *Term, f func(leaf *Term) *Term) *Term {
	if t.Op == OConst {
		return f(t)
	}
	// t.Op == OIte && t.CT
	return ts.Ite(t.Args[0], ts.pushCT(t.Args[1], f), ts.pushCT(t.Args[2], f))
}

func (ts *TS) Eq(a, b *Term) *Term {
	if a.W != b.W {
		panic(fmt.Sprintf("eq width mismatch %d %d", a.W, b.W))
	}
	if a == b {
		return ts.True
	}
	if a.IsConst() && b.IsConst() {
		return ts.Bool(a.Val == b.Val)
	}
	if a.W == 0 {
		if a.IsConst() {
			a, b = b, a
		}
		if b.IsTrue() {
			return a
		}
		if b.IsFalse() {
			return ts.Not(a)
		}
		if a.Op == ONot && a.Args[0] == b || b.Op == ONot && b.Args[0] == a {
			return ts.False
		}
	}
	if a.CT && b.IsConst() && a.Op == OIte {
		return ts.pushCT(a, func(l *Term) *Term { return ts.Bool(l.Val == b.Val) })
	}
	if b.CT && a.IsConst() && b.Op == OIte {
		return ts.pushCT(b, func(l *Term) *Term { return ts.Bool(l.Val == a.Val) })
	}
	if a.W != 0 {
		alo, ahi, aok := ts.rng(a)
		blo, bhi, bok := ts.rng(b)
		if aok && bok && (ahi < blo || bhi < alo) {
			return ts.False
		}
		if aok && b.IsConst() && !bok || bok && a.IsConst() && !aok {
			return ts.False
		}
	}
	if a.ID > b.ID {
		a, b = b, a
	}
	return ts.mk(&Term{Op: OEq, Args: []*Term{a, b}})
}

func (ts *TS) bin(op Op, a, b *Term) *Term {
	if a.W != b.W || a.W == 0 {
		panic(fmt.Sprintf("bv binop %v width mismatch %d %d", opNames[op], a.W, b.W))
	}
	w := a.W
	if a.IsConst() && b.IsConst() {
		x, y := a.Val, b.Val
		m := mask(w)
		switch op {
		case OAdd:
			return ts.BV(x+y, w)
		case OSub:
			return ts.BV(x-y, w)
		case OMul:
			return ts.BV(x*y, w)
		case OBAnd:
			return ts.BV(x&y, w)
		case OBOr:
			return ts.BV(x|y, w)
		case OBXor:
			return ts.BV(x^y, w)
		case OUDiv:
			if y == 0 {
				return ts.BV(m, w)
			}
			return ts.BV(x/y, w)
		case OURem:
			if y == 0 {
				return ts.BV(x, w)
			}
			return ts.BV(x%y, w)
		case OSDiv:
			sx, sy := sext64(x, w), sext64(y, w)
			if sy == 0 {
				if sx < 0 {
					return ts.BV(1, w)
				}
				return ts.BV(m, w)
			}
			if sy == -1 {
				return ts.BV(uint64(-sx), w)
			}
			return ts.BV(uint64(sx/sy), w)
		case OSRem:
			sx, sy := sext64(x, w), sext64(y, w)
			if sy == 0 {
				return ts.BV(x, w)
			}
			if sy == -1 {
				return ts.BV(0, w)
			}
			return ts.BV(uint64(sx%sy), w)
		case OShl:
			if y >= uint64(w) {
				return ts.BV(0, w)
			}
			return ts.BV(x<<y, w)
		case OLshr:
			if y >= uint64(w) {
				return ts.BV(0, w)
			}
			return ts.BV(x>>y, w)
		case OAshr:
			sx := sext64(x, w)
			if y >= uint64(w) {
				y = uint64(w - 1)
			}
			return ts.BV(uint64(sx>>y), w)
		}
	}
	switch op {
	case OAdd:
		if a.IsConst() && a.Val == 0 {
			return b
		}
		if b.IsConst() && b.Val == 0 {
			return a
		}
		if a.ID > b.ID {
			a, b = b, a
		}
	case OSub:
		if b.IsConst() && b.Val == 0 {
			return a
		}
		if a == b {
			return ts.BV(0, w)
		}
	case OMul:
		if a.IsConst() && a.Val == 0 || b.IsConst() && b.Val == 0 {
			return ts.BV(0, w)
		}
		if a.IsConst() && a.Val == 1 {
			return b
		}
		if b.IsConst() && b.Val == 1 {
			return a
		}
		if a.ID > b.ID {
			a, b = b, a
		}
	case OBAnd, OBOr:
		if a == b {
			return a
		}
		if a.ID > b.ID {
			a, b = b, a
		}
	case OBXor:
		if a == b {
			return ts.BV(0, w)
		}
		if a.ID > b.ID {
			a, b = b, a
		}
	case OShl, OLshr, OAshr:
		if b.IsConst() && b.Val == 0 {
			return a
		}
	}
	return ts.mk(&Term{Op: op, W: w, Args: []*Term{a, b}})
}

func (ts *TS) Add(a, b *Term) *Term  { return ts.bin(OAdd, a, b) }
func (ts *TS) Sub(a, b *Term) *Term  { return ts.bin(OSub, a, b) }
func (ts *TS) Mul(a, b *Term) *Term  { return ts.bin(OMul, a, b) }
func (ts *TS) BAnd(a, b *Term) *Term { return ts.bin(OBAnd, a, b) }
func (ts *TS) BOr(a, b *Term) *Term  { return ts.bin(OBOr, a, b) }
func (ts *TS) BXor(a, b *Term) *Term { return ts.bin(OBXor, a, b) }

func (ts *TS) BNot(a *Term) *Term {
	if a.IsConst() {
		return ts.BV(^a.Val, a.W)
	}
	return ts.mk(&Term{Op: OBNot, W: a.W, Args: []*Term{a}})
}

func (ts *TS) Neg(a *Term) *Term {
	if a.IsConst() {
		return ts.BV(-a.Val, a.W)
	}
	return ts.mk(&Term{Op: ONeg, W: a.W, Args: []*Term{a}})
}

func (ts *TS) cmp(op Op, a, b *Term) *Term {
	if a.W != b.W || a.W == 0 {
		panic(fmt.Sprintf("bv cmp width mismatch %d %d", a.W, b.W))
	}
	w := a.W
	if op == OUle {
		return ts.Not(ts.cmp(OUlt, b, a))
	}
	if op == OSle {
		return ts.Not(ts.cmp(OSlt, b, a))
	}
	eval := func(x, y uint64) bool {
		switch op {
		case OUlt:
			return x < y
		case OUle:
			return x <= y
		case OSlt:
			return sext64(x, w) < sext64(y, w)
		default:
			return sext64(x, w) <= sext64(y, w)
		}
	}
	if a.IsConst() && b.IsConst() {
		return ts.Bool(eval(a.Val, b.Val))
	}
	if a == b {
		return ts.Bool(op == OUle || op == OSle)
	}
	if op == OUlt && b.IsConst() && b.Val == 0 {
		return ts.False
	}
	if op == OUle && a.IsConst() && a.Val == 0 {
		return ts.True
	}
	if a.CT && b.IsConst() && a.Op == OIte {
		return ts.pushCT(a, func(l *Term) *Term { return ts.Bool(eval(l.Val, b.Val)) })
	}
	if b.CT && a.IsConst() && b.Op == OIte {
		return ts.pushCT(b, func(l *Term) *Term { return ts.Bool(eval(a.Val, l.Val)) })
	}
	// canonical form for comparisons against constants: the constant goes on the right
	if a.IsConst() && !b.IsConst() {
		if op == OUlt && a.Val != mask(w) {
			return ts.Not(ts.cmp(OUlt, b, ts.BV(a.Val+1, w)))
		}
		if op == OSlt && a.Val != mask(w)>>1 {
			return ts.Not(ts.cmp(OSlt, b, ts.BV(a.Val+1, w)))
		}
	}
	// interval-based folding
	alo, ahi, aok := ts.rng(a)
	blo, bhi, bok := ts.rng(b)
	signed := op == OSlt || op == OSle
	strict := op == OUlt || op == OSlt
	switch {
	case aok && bok:
		op = OUlt // both non-negative: canonical unsigned form
		if strict {
			if ahi < blo {
				return ts.True
			}
			if alo >= bhi {
				return ts.False
			}
		} else {
			if ahi <= blo {
				return ts.True
			}
			if alo > bhi {
				return ts.False
			}
		}
	case aok && b.IsConst():
		// b is outside the small non-negative range
		if !signed || sext64(b.Val, w) > 0 {
			return ts.True
		}
		return ts.False
	case bok && a.IsConst():
		if !signed || sext64(a.Val, w) > 0 {
			return ts.False
		}
		return ts.True
	}
	return ts.mk(&Term{Op: op, Args: []*Term{a, b}})
}

// rng returns [lo,hi] with 0 <= lo <= hi < min(2^40, 2^(W-1)) when cheaply known.
func (ts *TS) rng(t *Term) (uint64, uint64, bool) {
	if t.W == 0 {
		return 0, 0, false
	}
	if t.ivS == 1 {
		return t.ivLo, t.ivHi, true
	}
	if t.ivS == 2 {
		return 0, 0, false
	}
	lim := uint64(1) << 40
	if t.W < 41 {
		lim = uint64(1) << uint(t.W-1)
	}
	lo, hi, ok := uint64(0), uint64(0), false
	switch t.Op {
	case OConst:
		lo, hi, ok = t.Val, t.Val, true
	case OVar:
		if t.W <= 16 {
			lo, hi, ok = 0, mask(t.W), true
		}
	case OZext:
		if l, h, k := ts.rng(t.Args[0]); k {
			lo, hi, ok = l, h, true
		} else if t.Args[0].W <= 32 {
			lo, hi, ok = 0, mask(t.Args[0].W), true
		}
	case OIte:
		l1, h1, k1 := ts.rng(t.Args[1])
		l2, h2, k2 := ts.rng(t.Args[2])
		if k1 && k2 {
			lo, hi, ok = l1, h1, true
			if l2 < lo {
				lo = l2
			}
			if h2 > hi {
				hi = h2
			}
		}
	case OAdd:
		l1, h1, k1 := ts.rng(t.Args[0])
		l2, h2, k2 := ts.rng(t.Args[1])
		if k1 && k2 {
			lo, hi, ok = l1+l2, h1+h2, true
		}
	case OSub:
		l1, h1, k1 := ts.rng(t.Args[0])
		l2, h2, k2 := ts.rng(t.Args[1])
		if k1 && k2 && l1 >= h2 {
			lo, hi, ok = l1-h2, h1-l2, true
		}
	case OExtract:
		if t.P2 == 0 {
			if l, h, k := ts.rng(t.Args[0]); k {
				lo, hi, ok = l, h, true
			}
		}
	}
	if ok && hi < lim && lo <= hi {
		t.ivS, t.ivLo, t.ivHi = 1, lo, hi
		return lo, hi, true
	}
	t.ivS = 2
	return 0, 0, false
}

// uhi returns an upper bound for t as an unsigned value, when cheaply known.
func (ts *TS) uhi(t *Term) (uint64, bool) {
	_, h, ok := ts.rng(t)
	return h, ok
}

func (ts *TS) Ult(a, b *Term) *Term { return ts.cmp(OUlt, a, b) }
func (ts *TS) Ule(a, b *Term) *Term { return ts.cmp(OUle, a, b) }
func (ts *TS) Slt(a, b *Term) *Term { return ts.cmp(OSlt, a, b) }
func (ts *TS) Sle(a, b *Term) *Term { return ts.cmp(OSle, a, b) }

func (ts *TS) Extract(a *Term, hi, lo int) *Term {
	if lo == 0 && hi == a.W-1 {
		return a
	}
	w := hi - lo + 1
	if a.IsConst() {
		return ts.BV(a.Val>>uint(lo), w)
	}
	if a.Op == OZext && lo == 0 && hi < a.Args[0].W {
		return ts.Extract(a.Args[0], hi, lo)
	}
	if a.Op == OZext && lo == 0 && hi >= a.Args[0].W {
		return ts.Zext(a.Args[0], w)
	}
	if a.Op == OSext && lo == 0 && hi < a.Args[0].W {
		return ts.Extract(a.Args[0], hi, lo)
	}
	if a.Op == OIte && a.CT {
		return ts.Ite(a.Args[0], ts.Extract(a.Args[1], hi, lo), ts.Extract(a.Args[2], hi, lo))
	}
	return ts.mk(&Term{Op: OExtract, W: w, Args: []*Term{a}, P1: hi, P2: lo})
}

// Zext zero-extends a to width w.
func (ts *TS) Zext(a *Term, w int) *Term {
	if w == a.W {
		return a
	}
	if w < a.W {
		return ts.Extract(a, w-1, 0)
	}
	if a.IsConst() {
		return ts.BV(a.Val, w)
	}
	if a.Op == OZext {
		return ts.Zext(a.Args[0], w)
	}
	if a.Op == OIte && a.CT {
		return ts.Ite(a.Args[0], ts.Zext(a.Args[1], w), ts.Zext(a.Args[2], w))
	}
	return ts.mk(&Term{Op: OZext, W: w, Args: []*Term{a}, P1: w - a.W})
}

func (ts *TS) Sext(a *Term, w int) *Term {
	if w == a.W {
		return a
	}
	if w < a.W {
		return ts.Extract(a, w-1, 0)
	}
	if a.IsConst() {
		return ts.BV(uint64(sext64(a.Val, a.W)), w)
	}
	if a.Op == OIte && a.CT {
		return ts.Ite(a.Args[0], ts.Sext(a.Args[1], w), ts.Sext(a.Args[2], w))
	}
	return ts.mk(&Term{Op: OSext, W: w, Args: []*Term{a}, P1: w - a.W})
}

func (ts *TS) Concat(hi, lo *Term) *Term {
	w := hi.W + lo.W
	if w > 64 {
		panic("concat too wide")
	}
	if hi.IsConst() && lo.IsConst() {
		return ts.BV(hi.Val<<uint(lo.W)|lo.Val, w)
	}
	return ts.mk(&Term{Op: OConcat, W: w, Args: []*Term{hi, lo}})
}

// FpTheory builds the SMT floating-point-theory version of a comparison (used only to validate
// the bit-vector lowering below, see cmdFpLemma).
func (ts *TS) FpTheory(op Op, a, b *Term) *Term {
	if op == OFpIsNaN {
		return ts.mk(&Term{Op: OFpIsNaN, Args: []*Term{a}})
	}
	return ts.mk(&Term{Op: op, Args: []*Term{a, b}})
}

// Fp lowers IEEE comparisons on bit patterns to bit-vector constraints.
func (ts *TS) Fp(op Op, a, b *Term) *Term {
	if a.W != b.W || (a.W != 32 && a.W != 64) {
		panic("fp width")
	}
	w := a.W
	absMask := ts.BV(mask(w)>>1, w)
	zero := ts.BV(0, w)
	bothZero := ts.Eq(ts.BAnd(ts.BOr(a, b), absMask), zero)
	nan := ts.Or(ts.FpIsNaN(a), ts.FpIsNaN(b))
	sa := ts.Eq(ts.Extract(a, w-1, w-1), ts.BV(1, 1))
	sb := ts.Eq(ts.Extract(b, w-1, w-1), ts.BV(1, 1))
	eq := ts.Or(ts.Eq(a, b), bothZero)
	lt := ts.And(ts.Not(bothZero),
		ts.Ite(sa, ts.Ite(sb, ts.Ult(b, a), ts.True), ts.Ite(sb, ts.False, ts.Ult(a, b))))
	switch op {
	case OFpEq:
		return ts.And(ts.Not(nan), eq)
	case OFpLt:
		return ts.And(ts.Not(nan), lt)
	case OFpLe:
		return ts.And(ts.Not(nan), ts.Or(eq, lt))
	}
	panic("fp op")
}

func (ts *TS) FpIsNaN(a *Term) *Term {
	w := a.W
	var expMask, mantMask uint64
	if w == 32 {
		expMask, mantMask = 0x7F800000, 0x007FFFFF
	} else {
		expMask, mantMask = 0x7FF0000000000000, 0x000FFFFFFFFFFFFF
	}
	return ts.And(ts.Eq(ts.BAnd(a, ts.BV(expMask, w)), ts.BV(expMask, w)),
		ts.Not(ts.Eq(ts.BAnd(a, ts.BV(mantMask, w)), ts.BV(0, w))))
}

func (ts *TS) UF(name string, resW int, args ...*Term) *Term {
	sig := make([]int, 0, len(args)+1)
	for _, a := range args {
		sig = append(sig, a.W)
	}
	sig = append(sig, resW)
	ts.UFs[name] = sig
	return ts.mk(&Term{Op: OUF, W: resW, Name: name, Args: append([]*Term(nil), args...)})
}

// ---------- SMT-LIB printing ----------

func sortStr(w int) string {
	if w == 0 {
		return "Bool"
	}
	return fmt.Sprintf("(_ BitVec %d)", w)
}

func (t *Term) ref() string {
	switch t.Op {
	case OConst:
		if t.W == 0 {
			if t.Val == 1 {
				return "true"
			}
			return "false"
		}
		return fmt.Sprintf("(_ bv%d %d)", t.Val, t.W)
	case OVar:
		return t.Name
	}
	return "t" + strconv.Itoa(t.ID)
}

func fpSort(w int) string {
	if w == 32 {
		return "(_ to_fp 8 24)"
	}
	return "(_ to_fp 11 53)"
}

func (t *Term) body() string {
	var sb strings.Builder
	switch t.Op {
	case OExtract:
		fmt.Fprintf(&sb, "((_ extract %d %d) %s)", t.P1, t.P2, t.Args[0].ref())
	case OZext:
		fmt.Fprintf(&sb, "((_ zero_extend %d) %s)", t.P1, t.Args[0].ref())
	case OSext:
		fmt.Fprintf(&sb, "((_ sign_extend %d) %s)", t.P1, t.Args[0].ref())
	case OFpEq, OFpLt, OFpLe:
		n := map[Op]string{OFpEq: "fp.eq", OFpLt: "fp.lt", OFpLe: "fp.leq"}[t.Op]
		fs := fpSort(t.Args[0].W)
		fmt.Fprintf(&sb, "(%s (%s %s) (%s %s))", n, fs, t.Args[0].ref(), fs, t.Args[1].ref())
	case OFpIsNaN:
		fmt.Fprintf(&sb, "(fp.isNaN (%s %s))", fpSort(t.Args[0].W), t.Args[0].ref())
	case OUF:
		sb.WriteByte('(')
		sb.WriteString(t.Name)
		for _, a := range t.Args {
			sb.WriteByte(' ')
			sb.WriteString(a.ref())
		}
		sb.WriteByte(')')
	default:
		sb.WriteByte('(')
		sb.WriteString(opNames[t.Op])
		for _, a := range t.Args {
			sb.WriteByte(' ')
			sb.WriteString(a.ref())
		}
		sb.WriteByte(')')
	}
	return sb.String()
}

// Reach marks nodes reachable from roots; returns them in ID (topological) order.
func (ts *TS) Reach(roots []*Term) []*Term {
	seen := make([]bool, len(ts.nodes))
	var stack []*Term
	for _, r := range roots {
		if !seen[r.ID] {
			seen[r.ID] = true
			stack = append(stack, r)
		}
	}
	for len(stack) > 0 {
		t := stack[len(stack)-1]
		stack = stack[:len(stack)-1]
		for _, a := range t.Args {
			if !seen[a.ID] {
				seen[a.ID] = true
				stack = append(stack, a)
			}
		}
	}
	var out []*Term
	for i, s := range seen {
		if s {
			out = append(out, ts.nodes[i])
		}
	}
	return out
}

// Script emits declarations and definitions for all nodes reachable from roots.
func (ts *TS) Script(roots []*Term) string {
	var sb strings.Builder
	nodes := ts.Reach(roots)
	ufSeen := map[string]bool{}
	for _, t := range nodes {
		if t.Op == OUF && !ufSeen[t.Name] {
			ufSeen[t.Name] = true
			sig := ts.UFs[t.Name]
			sb.WriteString("(declare-fun " + t.Name + " (")
			for i := 0; i < len(sig)-1; i++ {
				sb.WriteString(sortStr(sig[i]) + " ")
			}
			sb.WriteString(") " + sortStr(sig[len(sig)-1]) + ")\n")
		}
	}
	for _, t := range nodes {
		switch t.Op {
		case OConst:
		case OVar:
			fmt.Fprintf(&sb, "(declare-const %s %s)\n", t.Name, sortStr(t.W))
		default:
			fmt.Fprintf(&sb, "(define-fun t%d () %s %s)\n", t.ID, sortStr(t.W), t.body())
		}
	}
	return sb.String()
}

// Eval evaluates a term under an assignment of variables (by name). UFs and FP ops are not supported here.
func (ts *TS) Eval(t *Term, env map[string]uint64, memo map[int]uint64) (uint64, error) {
	if v, ok := memo[t.ID]; ok {
		return v, nil
	}
	var res uint64
	switch t.Op {
	case OConst:
		res = t.Val
	case OVar:
		res = env[t.Name] & mask64(t.W)
	default:
		av := make([]uint64, len(t.Args))
		for i, a := range t.Args {
			v, err := ts.Eval(a, env, memo)
			if err != nil {
				return 0, err
			}
			av[i] = v
		}
		b2u := func(b bool) uint64 {
			if b {
				return 1
			}
			return 0
		}
		switch t.Op {
		case ONot:
			res = 1 - av[0]
		case OAnd:
			res = 1
			for _, v := range av {
				res &= v
			}
		case OOr:
			res = 0
			for _, v := range av {
				res |= v
			}
		case OIte:
			if av[0] == 1 {
				res = av[1]
			} else {
				res = av[2]
			}
		case OEq:
			res = b2u(av[0] == av[1])
		case OFpEq, OFpLt, OFpLe, OFpIsNaN:
			res = evalFp(t.Op, t.Args[0].W, av)
		case OUF:
			return 0, fmt.Errorf("eval: UF")
		case OExtract:
			res = (av[0] >> uint(t.P2)) & mask(t.W)
		case OZext:
			res = av[0]
		case OSext:
			res = uint64(sext64(av[0], t.Args[0].W)) & mask(t.W)
		case OConcat:
			res = av[0]<<uint(t.Args[1].W) | av[1]
		case OBNot:
			res = ^av[0] & mask(t.W)
		case ONeg:
			res = (-av[0]) & mask(t.W)
		case OUlt, OUle, OSlt, OSle:
			c := ts.cmp(t.Op, ts.BV(av[0], t.Args[0].W), ts.BV(av[1], t.Args[0].W))
			res = c.Val
		default:
			c := ts.bin(t.Op, ts.BV(av[0], t.W), ts.BV(av[1], t.W))
			res = c.Val
		}
	}
	memo[t.ID] = res
	return res, nil
}

func mask64(w int) uint64 {
	if w == 0 {
		return 1
	}
	return mask(w)
}
