package main

import (
	"fmt"
	"math/rand"
)

// The type-shape corpus ("programs" quantifier). Every entry is one instantiation: a top-level
// type on which the derive functions are requested.

type Inst struct {
	ID   string
	T    *Ty
	Tags map[string]bool // e.g. "float", "map", "bytes", "rec", "userEqual"
}

func leafBasics(tier string) []*Ty {
	if tier == "quick" {
		return []*Ty{B("bool"), B("int"), B("uint8"), B("int32"), B("float64"), B("complex128"), B("string")}
	}
	return []*Ty{B("bool"), B("int"), B("int8"), B("int16"), B("int32"), B("int64"), B("uint"), B("uint8"), B("uint16"), B("uint32"), B("uint64"),
		B("float32"), B("float64"), B("complex64"), B("complex128"), B("string"), B("uintptr")}
}

func keyTypes() []*Ty {
	return []*Ty{B("int"), B("string"), Named("NKey", B("int32")), Array(2, B("uint8")),
		NStruct("SKey", F("A", B("int")), F("B", B("string"))), B("bool"), B("float64"),
		// every ordered basic kind once as a key (sorting of keys is per kind in the sort plugin)
		B("int8"), B("int16"), B("int32"), B("int64"), B("uint"), B("uint8"), B("uint16"), B("uint32"), B("uint64"), B("uintptr"), B("float32"),
		Named("NU64", B("uint64")),
		// keys that are not ordered by <: the sort plugin delegates to the compare plugin
		B("complex128")}
}

func tagOf(t *Ty) map[string]bool {
	tags := map[string]bool{}
	t.walk(func(x *Ty) {
		switch x.K {
		case "basic":
			switch x.Name {
			case "float64", "float32":
				tags["float"] = true
			case "complex128", "complex64":
				tags["float"] = true
				tags["complex"] = true
			case "string":
				tags["string"] = true
			}
		case "map":
			tags["map"] = true
		case "slice":
			if x.Elem.K == "basic" && x.Elem.Name == "uint8" {
				tags["bytes"] = true
			}
		case "named":
			if x.UserEqual || x.UserEqualVal {
				tags["userEqual"] = true
			}
			if x.Under.K == "basic" {
				tags["namedbasic"] = true
				if x.Under.Name == "float64" || x.Under.Name == "float32" {
					tags["namedfloat"] = true
				}
			}
		case "ref":
			tags["rec"] = true
		}
	})
	return tags
}

func wrapShapes(e *Ty, withMap bool) []*Ty {
	out := []*Ty{Ptr(e), Slice(e), Array(2, e)}
	if withMap {
		out = append(out, Map(B("string"), e))
	}
	return out
}

// Corpus returns the instantiations for a tier. seed drives the "random beyond the bound" part.
func Corpus(tier string, seed int64) []Inst {
	var out []Inst
	n := 0
	add := func(t *Ty) {
		n++
		out = append(out, Inst{ID: fmt.Sprintf("T%03d", n), T: t, Tags: tagOf(t)})
	}
	basics := leafBasics(tier)
	// depth 0: basics and named basics
	for _, b := range basics {
		add(b)
	}
	add(Named("NInt", B("int")))
	add(Named("NStr", B("string")))
	add(Named("NBool", B("bool")))
	// depth 1: one constructor over every basic
	for _, b := range basics {
		for _, w := range wrapShapes(b, true) {
			add(w)
		}
	}
	// maps over the key types
	for _, k := range keyTypes() {
		add(Map(k, B("int")))
	}
	// structs
	leaf := NStruct("Leaf", F("I", B("int")), F("S", B("string")))
	add(Ptr(leaf))
	add(leaf)
	add(Ptr(NStruct("AllB", F("B", B("bool")), F("I8", B("int8")), F("U", B("uint")), F("F", B("float64")), F("C", B("complex128")), F("S", B("string")))))
	add(Ptr(NStruct("Unexp", F("a", B("int")), F("b", B("string")), F("C", Ptr(B("int"))))))
	add(Ptr(NStruct("Emb", F("Leaf", leaf), F("X", B("int")))))
	add(Ptr(NStruct("Empty")))
	add(Ptr(NStruct("Blank", F("A", B("int")), F("_", B("int")), F("C", B("string"))))) // a blank field cannot be referred to
	// depth 2 by composition over representative leaves
	reps := []*Ty{B("int"), Ptr(leaf)}
	if tier != "quick" {
		reps = append(reps, B("string"), B("float64"))
	}
	for _, r := range reps {
		for _, w1 := range wrapShapes(r, true) {
			for _, w2 := range wrapShapes(w1, true) {
				if tier == "quick" {
					// quick: keep the mixed compositions only
					if w1.K == w2.K && w1.K != "slice" {
						continue
					}
				}
				add(w2)
			}
			// as a struct field
			add(Ptr(NStruct("W"+w1.Mangle(), F("A", B("int")), F("F", w1), F("Z", B("string")))))
		}
	}
	if tier == "quick" {
		// a few hand-picked depth-2 shapes over other leaves
		add(Slice(Slice(B("string"))))
		add(Map(B("string"), Slice(B("float64"))))
		add(Ptr(NStruct("WSfloat64", F("A", B("int")), F("F", Slice(B("float64"))), F("Z", B("string")))))
		add(Ptr(NStruct("WMstring_string", F("A", B("int")), F("F", Map(B("string"), B("string"))), F("Z", B("string")))))
		add(Array(2, Ptr(B("string"))))
	}
	// an array of slices as a map value: built in a temporary before it is stored (the temporary must be per entry)
	add(Map(B("string"), Array(2, Slice(B("int")))))
	// containers of named basics and of struct-keyed maps
	add(Slice(Named("NInt", B("int"))))
	add(Map(Named("NStr", B("string")), Slice(B("int"))))
	add(Map(NStruct("SKey", F("A", B("int")), F("B", B("string"))), Ptr(leaf)))
	add(Ptr(NStruct("Bytes", F("Bs", Slice(B("uint8"))), F("N", B("int")))))
	add(Ptr(NStruct("Multi", F("P", Ptr(B("int"))), F("L", Slice(B("string"))), F("M", Map(B("int"), B("bool"))), F("A", Array(2, B("int8"))))))
	// recursive types
	add(Ptr(NStruct("RList", F("V", B("int")), F("Next", Ptr(Ref("RList"))))))
	add(Ptr(NStruct("RTree", F("Kids", Slice(Ptr(Ref("RTree")))), F("V", B("string")))))
	add(Ptr(NStruct("RMap", F("M", Map(B("string"), Ptr(Ref("RMap")))), F("V", B("bool")))))
	// user-declared Equal on a component
	ue := NStruct("UEq", F("A", B("int")), F("B", B("int")))
	ue.UserEqual = true
	add(Ptr(NStruct("HasUEq", F("U", Ptr(ue)), F("X", B("int")))))
	// a component with its own Hash() int32 method (consistent with structural equality: it hashes its only field)
	uh := NStruct("UHash", F("A", B("int")))
	uh.UserHash = true
	add(Ptr(NStruct("HasUHash", F("H", Ptr(uh)), F("V", uh), F("X", B("int")))))
	// comparable named types whose own Equal (value receiver) differs from ==: as a value field, behind a
	// pointer, as slice/array/map elements and at top level
	uv := NStruct("UEqV", F("A", B("int")), F("B", B("int")))
	uv.UserEqualVal = true
	np := Named("NPar", B("int"))
	np.UserEqualVal = true
	add(Ptr(NStruct("HasUEqV", F("V", uv), F("P", Ptr(uv)), F("N", np), F("X", B("int")))))
	// ... and hidden inside comparable composites that have no Equal of their own (array, wrapper struct)
	add(Ptr(NStruct("HasArrUEq", F("A", Array(2, uv)), F("L", Slice(B("int"))))))
	add(Ptr(NStruct("HasWrapUEq", F("W", NStruct("WrapU", F("In", uv))), F("X", B("int")))))
	// ... the same with a named BASIC type that has its own Equal (compared by parity)
	add(Ptr(NStruct("HasArrNPar", F("A", Array(2, np)), F("L", Slice(B("int"))))))
	add(Ptr(NStruct("HasWrapNPar", F("W", NStruct("WrapN", F("In", np), F("K", B("string")))), F("X", B("int")))))
	add(Slice(uv))
	add(Map(B("string"), np))
	add(Array(2, uv))
	add(uv)
	if tier != "quick" {
		// seeded random deeper shapes
		rng := rand.New(rand.NewSource(seed))
		for i := 0; i < 16; i++ {
			add(randomShape(rng, 3, basics, leaf))
		}
	}
	return out
}

func randomShape(rng *rand.Rand, depth int, basics []*Ty, leaf *Ty) *Ty {
	if depth == 0 {
		if rng.Intn(5) == 0 {
			return Ptr(leaf)
		}
		return basics[rng.Intn(len(basics))]
	}
	e := randomShape(rng, depth-1, basics, leaf)
	switch rng.Intn(5) {
	case 0:
		return Ptr(e)
	case 1:
		return Slice(e)
	case 2:
		return Array(2, e)
	case 3:
		ks := keyTypes()
		return Map(ks[rng.Intn(len(ks))], e)
	default:
		return Ptr(NStruct(fmt.Sprintf("RS%d", rng.Intn(1000000)), F("A", e), F("B", B("int"))))
	}
}
