package main

import (
	"fmt"
	"strings"
)

// Instantiations for the functional helpers are "cases": a signature or chain shape.

type CaseInst struct {
	ID   string
	Desc string
	Gen  func(g *Gen, id string) []HarnessSrc
}

func caseInsts(cs []CaseInst) func(tier string, seed int64) []Inst {
	return func(tier string, seed int64) []Inst {
		var out []Inst
		for _, c := range cs {
			out = append(out, Inst{ID: c.ID, T: &Ty{K: "basic", Name: "case:" + c.Desc}, Tags: map[string]bool{}})
		}
		return out
	}
}

func caseGen(cs []CaseInst) PropGen {
	return func(g *Gen, in Inst, tier string) []HarnessSrc {
		for _, c := range cs {
			if c.ID == in.ID {
				return c.Gen(g, c.ID)
			}
		}
		return nil
	}
}

var leafTy = NStruct("Leaf", F("I", B("int")), F("S", B("string")))

// ---------- C15 ----------

type sigParam struct {
	Name string // "" = unnamed
	T    *Ty
}

type sigCase struct {
	ID      string
	Params  []sigParam
	Results []*Ty
}

func (s sigCase) desc() string {
	var ps []string
	for _, p := range s.Params {
		ps = append(ps, strings.TrimSpace(p.Name+" "+p.T.Expr()))
	}
	var rs []string
	for _, r := range s.Results {
		rs = append(rs, r.Expr())
	}
	return "func(" + strings.Join(ps, ", ") + ") (" + strings.Join(rs, ", ") + ")"
}

func c15Cases(tier string) []sigCase {
	I, S, Bo, U8, PL := B("int"), B("string"), B("bool"), B("uint8"), Ptr(leafTy)
	cs := []sigCase{
		{"S01", []sigParam{{"a", I}, {"b", S}}, []*Ty{Bo}},
		{"S02", []sigParam{{"a", I}, {"b", S}, {"c", Bo}}, []*Ty{I, S}},
		{"S03", []sigParam{{"p", PL}, {"n", I}, {"s", S}, {"u", U8}}, []*Ty{PL, Bo, S}},
		{"S04", []sigParam{{"_", I}, {"b", S}}, []*Ty{I}},
		{"S05", []sigParam{{"a", S}, {"b", S}, {"c", I}, {"d", I}, {"e", Bo}}, []*Ty{S}},
		{"S06", []sigParam{{"f", I}, {"b", S}}, []*Ty{Bo}},                // F6: parameter named like the generator's own
		{"S07", []sigParam{{"", I}, {"", S}}, []*Ty{Bo}},                  // F6: unnamed parameters
		{"S08", []sigParam{{"a", I}, {"b", S}}, nil},                      // F10: no results
		{"S09", []sigParam{{"v0", I}, {"err", S}}, []*Ty{I}},              // names used elsewhere by the generators
		{"S13", []sigParam{{"param_1", I}, {"_", I}, {"c", S}}, []*Ty{I}}, // a user name that looks like a renamed blank
		{"S14", []sigParam{{"a", I}, {"_", S}}, []*Ty{I}},                 // the only blank parameter is the last one
		{"S15", []sigParam{{"a", I}, {"b", S}, {"f", Bo}}, []*Ty{Bo}},     // the only parameter named f is the last one
	}
	if tier != "quick" {
		cs = append(cs,
			sigCase{"S10", []sigParam{{"list", Slice(I)}, {"m", Map(S, I)}}, []*Ty{I}},
			sigCase{"S11", []sigParam{{"a", B("float64")}, {"b", B("int8")}, {"c", S}}, []*Ty{B("float64"), B("int8")}},
			sigCase{"S12", []sigParam{{"_", I}, {"_", S}, {"c", Bo}}, []*Ty{I}},
		)
	}
	return cs
}

func eqExpr(t *Ty, a, b string) string {
	if t.K == "slice" || t.K == "map" {
		// identity of the passed value: same length and (for slices) same first element address
		if t.K == "slice" {
			return fmt.Sprintf("(len(%s) == len(%s) && (len(%s) == 0 || &%s[0] == &%s[0]))", a, b, a, a, b)
		}
		return fmt.Sprintf("((%s == nil && %s == nil) || vx.SameMap(%s, %s))", a, b, a, b)
	}
	return fmt.Sprintf("(%s == %s)", a, b)
}

func c15Gen(sc sigCase) func(g *Gen, id string) []HarnessSrc {
	return func(g *Gen, id string) []HarnessSrc {
		g.declare(leafTy)
		n := len(sc.Params)
		var decl strings.Builder
		// globals: call counter, captured args, results to return
		fmt.Fprintf(&decl, "var c15calls%s int\n", id)
		for i, p := range sc.Params {
			fmt.Fprintf(&decl, "var c15arg%s_%d %s\n", id, i, p.T.Expr())
		}
		for i, r := range sc.Results {
			fmt.Fprintf(&decl, "var c15res%s_%d %s\n", id, i, r.Expr())
		}
		unnamed := sc.Params[0].Name == ""
		var ps, rs, capture, rets []string
		for i, p := range sc.Params {
			nm := p.Name
			if unnamed {
				ps = append(ps, p.T.Expr())
			} else {
				ps = append(ps, nm+" "+p.T.Expr())
				if nm != "_" {
					capture = append(capture, fmt.Sprintf("\tc15arg%s_%d = %s\n", id, i, nm))
				}
			}
		}
		for i, r := range sc.Results {
			rs = append(rs, r.Expr())
			rets = append(rets, fmt.Sprintf("c15res%s_%d", id, i))
		}
		resSig := ""
		if len(rs) > 0 {
			resSig = " (" + strings.Join(rs, ", ") + ")"
		}
		if unnamed {
			// a function-typed variable: its signature has no parameter names
			var nps, caps []string
			for i, p := range sc.Params {
				nps = append(nps, fmt.Sprintf("a%d %s", i, p.T.Expr()))
				caps = append(caps, fmt.Sprintf("\tc15arg%s_%d = a%d\n", id, i, i))
			}
			// (assigned in the harness prologue: package-level initialisers are not run by the engine)
			fmt.Fprintf(&decl, "var c15fn%s func(%s)%s\n\nfunc c15impl%s(%s)%s {\n\tc15calls%s++\n%s", id, strings.Join(ps, ", "), resSig, id, strings.Join(nps, ", "), resSig, id, strings.Join(caps, ""))
			if len(rets) > 0 {
				fmt.Fprintf(&decl, "\treturn %s\n", strings.Join(rets, ", "))
			}
			decl.WriteString("}\n")
		} else {
			fmt.Fprintf(&decl, "func c15fn%s(%s)%s {\n\tc15calls%s++\n%s", id, strings.Join(ps, ", "), resSig, id, strings.Join(capture, ""))
			if len(rets) > 0 {
				fmt.Fprintf(&decl, "\treturn %s\n", strings.Join(rets, ", "))
			}
			decl.WriteString("}\n")
		}
		g.addFunc("c15decl_"+id, decl.String())
		// common prologue: arbitrary results and arguments
		var pro strings.Builder
		fmt.Fprintf(&pro, "\tc15calls%s = 0\n", id)
		if unnamed {
			fmt.Fprintf(&pro, "\tc15fn%s = c15impl%s\n", id, id)
		}
		for i, r := range sc.Results {
			fmt.Fprintf(&pro, "\tc15res%s_%d = %s\n", id, i, nd(r, fmt.Sprintf("res%d", i)))
		}
		var xs []string
		for i, p := range sc.Params {
			fmt.Fprintf(&pro, "\tx%d := %s\n", i, nd(p.T, fmt.Sprintf("x%d", i)))
			xs = append(xs, fmt.Sprintf("x%d", i))
		}
		lhs := ""
		var outs []string
		for i := range sc.Results {
			outs = append(outs, fmt.Sprintf("o%d", i))
		}
		if len(outs) > 0 {
			lhs = strings.Join(outs, ", ") + " := "
		}
		check := func(order []int) string {
			var cs []string
			cs = append(cs, fmt.Sprintf("c15calls%s == 1", id))
			for i, p := range sc.Params {
				if p.Name == "_" {
					continue
				}
				cs = append(cs, eqExpr(p.T, fmt.Sprintf("c15arg%s_%d", id, i), fmt.Sprintf("x%d", order[i])))
			}
			for i, r := range sc.Results {
				cs = append(cs, eqExpr(r, fmt.Sprintf("o%d", i), fmt.Sprintf("c15res%s_%d", id, i)))
			}
			return strings.Join(cs, " && ")
		}
		ident := make([]int, n)
		for i := range ident {
			ident[i] = i
		}
		var out []HarnessSrc
		fn := "c15fn" + id
		// Curry: f(a, rest...) -> g(a)(rest...)
		out = append(out, h("VX_C15_curry_"+id, "curry", pro.String()+fmt.Sprintf(
			"\t%sderiveCurry%s(%s)(x0)(%s)\n\tvx.Assert(%s, \"curried call = one call of f with the same arguments and results\")\n",
			lhs, id, fn, strings.Join(xs[1:], ", "), check(ident))))
		// Uncurry(Curry(f)) == f
		out = append(out, h("VX_C15_uncurry_"+id, "uncurry", pro.String()+fmt.Sprintf(
			"\t%sderiveUncurry%s(deriveCurry%s(%s))(%s)\n\tvx.Assert(%s, \"Uncurry(Curry(f)) behaves as f\")\n",
			lhs, id, id, fn, strings.Join(xs, ", "), check(ident))))
		// Flip: first two swapped
		fl := append([]string{xs[1], xs[0]}, xs[2:]...)
		out = append(out, h("VX_C15_flip_"+id, "flip", pro.String()+fmt.Sprintf(
			"\t%sderiveFlip%s(%s)(%s)\n\tvx.Assert(%s, \"flipped call passes every argument in its proper position\")\n",
			lhs, id, fn, strings.Join(fl, ", "), check(ident))))
		// Apply: last argument pre-bound
		out = append(out, h("VX_C15_apply_"+id, "apply", pro.String()+fmt.Sprintf(
			"\t%sderiveApply%s(%s, %s)(%s)\n\tvx.Assert(%s, \"applied call passes every argument in its proper position\")\n",
			lhs, id, fn, xs[n-1], strings.Join(xs[:n-1], ", "), check(ident))))
		// Tuple
		var tl, tc []string
		for i, p := range sc.Params {
			tl = append(tl, fmt.Sprintf("t%d", i))
			tc = append(tc, eqExpr(p.T, fmt.Sprintf("t%d", i), fmt.Sprintf("x%d", i)))
		}
		var tpro strings.Builder
		for i, p := range sc.Params {
			fmt.Fprintf(&tpro, "\tx%d := %s\n", i, nd(p.T, fmt.Sprintf("x%d", i)))
		}
		out = append(out, h("VX_C15_tuple_"+id, "tuple", tpro.String()+fmt.Sprintf(
			"\t%s := deriveTuple%s(%s)()\n\tvx.Assert(%s, \"Tuple yields exactly its arguments\")\n",
			strings.Join(tl, ", "), id, strings.Join(xs, ", "), strings.Join(tc, " && "))))
		return out
	}
}

func c15CaseInsts(tier string) []CaseInst {
	var out []CaseInst
	for _, sc := range c15Cases(tier) {
		out = append(out, CaseInst{ID: sc.ID, Desc: sc.desc(), Gen: c15Gen(sc)})
	}
	// Uncurry alone, over a hand-written curried function whose outer and inner parameter share a name
	out = append(out, CaseInst{ID: "U01", Desc: "uncurry func(a int) func(a string) int", Gen: func(g *Gen, id string) []HarnessSrc {
		g.addFunc("c15decl_"+id, fmt.Sprintf("var c15calls%s int\nvar c15x%s int\nvar c15y%s string\nvar c15r%s int\n\nfunc c15cur%s(a int) func(a string) int {\n\tx := a\n\treturn func(a string) int {\n\t\tc15calls%s++\n\t\tc15x%s, c15y%s = x, a\n\t\treturn c15r%s\n\t}\n}\n", id, id, id, id, id, id, id, id, id))
		body := fmt.Sprintf("\tc15calls%s = 0\n\tc15r%s = vx.Nondet[int](\"r\")\n\tx := vx.Nondet[int](\"x\")\n\ty := vx.Nondet[string](\"y\")\n\to := deriveUncurry%s(c15cur%s)(x, y)\n"+
			"\tvx.Assert(c15calls%s == 1 && c15x%s == x && c15y%s == y && o == c15r%s, \"uncurried call = one call of the curried function with both arguments in place\")\n", id, id, id, id, id, id, id, id)
		return []HarnessSrc{h("VX_C15_uncurryonly_"+id, "uncurry", body)}
	}})
	// Uncurry alone with several inner parameters: the inner parameter that shares the outer parameter's name
	// is first, last or in the middle (added after seed C15-e: renames dropped unless the last one collides)
	type inP struct{ name, typ string }
	mk := func(cid string, inner []inP) {
		out = append(out, CaseInst{ID: cid, Desc: "uncurry func(a int) func(...) int with a colliding inner parameter", Gen: func(g *Gen, id string) []HarnessSrc {
			var decl, sig, sigIn, caps, pro, args, conds strings.Builder
			fmt.Fprintf(&decl, "var c15calls%s int\nvar c15x%s int\nvar c15r%s int\n", id, id, id)
			for i, p := range inner {
				fmt.Fprintf(&decl, "var c15in%s_%d %s\n", id, i, p.typ)
				if i > 0 {
					sig.WriteString(", ")
					sigIn.WriteString(", ")
				}
				fmt.Fprintf(&sig, "%s %s", p.name, p.typ)
				fmt.Fprintf(&sigIn, "q%d %s", i, p.typ)
				fmt.Fprintf(&caps, "\t\tc15in%s_%d = q%d\n", id, i, i)
				fmt.Fprintf(&pro, "\ty%d := vx.Nondet[%s](\"y%d\")\n", i, p.typ, i)
				fmt.Fprintf(&args, ", y%d", i)
				fmt.Fprintf(&conds, " && c15in%s_%d == y%d", id, i, i)
			}
			fmt.Fprintf(&decl, "\nfunc c15cur%s(a int) func(%s) int {\n\tx := a\n\treturn func(%s) int {\n\t\tc15calls%s++\n\t\tc15x%s = x\n%s\t\treturn c15r%s\n\t}\n}\n", id, sig.String(), sigIn.String(), id, id, caps.String(), id)
			g.addFunc("c15decl_"+id, decl.String())
			body := fmt.Sprintf("\tc15calls%s = 0\n\tc15r%s = vx.Nondet[int](\"r\")\n\tx := vx.Nondet[int](\"x\")\n%s\to := deriveUncurry%s(c15cur%s)(x%s)\n"+
				"\tvx.Assert(c15calls%s == 1 && c15x%s == x%s && o == c15r%s, \"uncurried call = one call of the curried function with every argument in place\")\n",
				id, id, pro.String(), id, id, args.String(), id, id, conds.String(), id)
			return []HarnessSrc{h("VX_C15_uncurryonly_"+id, "uncurry", body)}
		}})
	}
	mk("U02", []inP{{"a", "string"}, {"n", "int"}})
	mk("U03", []inP{{"n", "int"}, {"a", "string"}})
	mk("U04", []inP{{"n", "int"}, {"a", "string"}, {"b", "bool"}})
	// Curry over signatures with named results that clash with names the generated code uses (F43)
	nr := func(cid, sig string) {
		out = append(out, CaseInst{ID: cid, Desc: "curry func" + sig, Gen: func(g *Gen, id string) []HarnessSrc {
			g.addFunc("c15decl_"+id, fmt.Sprintf("var c15calls%s int\nvar c15a%s int\nvar c15b%s int\nvar c15r%s int\n\nfunc c15nr%s(p int, q int) int {\n\tc15calls%s++\n\tc15a%s, c15b%s = p, q\n\treturn c15r%s\n}\n\nvar c15nrf%s func%s\n", id, id, id, id, id, id, id, id, id, id, sig))
			body := fmt.Sprintf("\tc15calls%s = 0\n\tc15nrf%s = c15nr%s\n\tc15r%s = vx.Nondet[int](\"r\")\n\tx := vx.Nondet[int](\"x\")\n\ty := vx.Nondet[int](\"y\")\n\to := deriveCurry%s(c15nrf%s)(x)(y)\n"+
				"\tvx.Assert(c15calls%s == 1 && c15a%s == x && c15b%s == y && o == c15r%s, \"curried call = one call of f with the same arguments and results\")\n", id, id, id, id, id, id, id, id, id, id)
			return []HarnessSrc{h("VX_C15_currynamed_"+id, "curry", body)}
		}})
	}
	nr("N01", "(_ int, b int) (param_0 int)")
	nr("N02", "(a int, b int) (f int)")
	return out
}

// ---------- C16 ----------

const c16Err = `type vxErr struct{ id int }

func (e *vxErr) Error() string { return "vxErr" }
`

func zeroCheck(t *Ty, v string) string {
	switch t.K {
	case "ptr", "slice", "map":
		return v + " == nil"
	case "basic":
		switch t.Name {
		case "string":
			return v + ` == ""`
		case "bool":
			return "!" + v
		}
		return v + " == 0"
	case "named":
		if t.Under.K == "basic" {
			return zeroCheck(t.Under, v)
		}
		return fmt.Sprintf("%s == (%s{})", v, t.Name)
	case "array":
		return fmt.Sprintf("%s == (%s{})", v, t.Expr())
	}
	return "true"
}

// c16Compose: chain of stages; stage i takes the non-error results of stage i-1.
func c16Compose(id string, stageRes [][]*Ty, arg *Ty) CaseInst {
	desc := "compose"
	for _, rs := range stageRes {
		var s []string
		for _, r := range rs {
			s = append(s, r.Expr())
		}
		desc += " -> (" + strings.Join(s, ", ") + ", error)"
	}
	return CaseInst{ID: id, Desc: desc, Gen: func(g *Gen, id string) []HarnessSrc {
		g.declare(leafTy)
		for _, rs := range stageRes {
			for _, r := range rs {
				g.declare(r)
			}
		}
		g.addFunc("c16err", c16Err)
		k := len(stageRes)
		var b strings.Builder
		b.WriteString("\tvar log []int\n")
		fmt.Fprintf(&b, "\tx := %s\n", nd(arg, "x"))
		for i := 0; i < k; i++ {
			fmt.Fprintf(&b, "\tfail%d := vx.Nondet[bool](\"fail%d\")\n\terr%d := error(&vxErr{%d})\n", i, i, i, i)
			for j, r := range stageRes[i] {
				fmt.Fprintf(&b, "\tr%d_%d := %s\n\tj%d_%d := %s\n", i, j, nd(r, fmt.Sprintf("r%d_%d", i, j)), i, j, nd(r, fmt.Sprintf("junk%d_%d", i, j)))
			}
		}
		// captured inputs of each stage
		inTypes := [][]*Ty{{arg}}
		for i := 0; i < k-1; i++ {
			inTypes = append(inTypes, stageRes[i])
		}
		for i := 0; i < k; i++ {
			for j, t := range inTypes[i] {
				fmt.Fprintf(&b, "\tvar got%d_%d %s\n", i, j, t.Expr())
			}
		}
		var fnames []string
		for i := 0; i < k; i++ {
			var ps, caps, okRet, failRet, rts []string
			for j, t := range inTypes[i] {
				ps = append(ps, fmt.Sprintf("p%d %s", j, t.Expr()))
				caps = append(caps, fmt.Sprintf("\t\tgot%d_%d = p%d\n", i, j, j))
			}
			for j, r := range stageRes[i] {
				okRet = append(okRet, fmt.Sprintf("r%d_%d", i, j))
				failRet = append(failRet, fmt.Sprintf("j%d_%d", i, j))
				rts = append(rts, r.Expr())
			}
			okRet = append(okRet, "nil")
			failRet = append(failRet, fmt.Sprintf("err%d", i))
			rts = append(rts, "error")
			fmt.Fprintf(&b, "\tf%d := func(%s) (%s) {\n\t\tlog = append(log, %d)\n%s\t\tif fail%d {\n\t\t\treturn %s\n\t\t}\n\t\treturn %s\n\t}\n",
				i, strings.Join(ps, ", "), strings.Join(rts, ", "), i, strings.Join(caps, ""), i, strings.Join(failRet, ", "), strings.Join(okRet, ", "))
			fnames = append(fnames, fmt.Sprintf("f%d", i))
		}
		last := stageRes[k-1]
		var outs []string
		for j := range last {
			outs = append(outs, fmt.Sprintf("o%d", j))
		}
		outs = append(outs, "err")
		fmt.Fprintf(&b, "\t%s := deriveCompose%s(%s)(x)\n", strings.Join(outs, ", "), id, strings.Join(fnames, ", "))
		// expectations, by first failing stage
		for i := 0; i <= k; i++ {
			var cond []string
			for j := 0; j < i && j < k; j++ {
				cond = append(cond, fmt.Sprintf("!fail%d", j))
			}
			if i < k {
				cond = append(cond, fmt.Sprintf("fail%d", i))
			}
			ncalls := i + 1
			if i == k {
				ncalls = k
			}
			var cs []string
			cs = append(cs, fmt.Sprintf("len(log) == %d", ncalls))
			for j := 0; j < ncalls; j++ {
				cs = append(cs, fmt.Sprintf("log[%d] == %d", j, j))
			}
			// inputs passed on unchanged
			cs = append(cs, eqExpr(arg, "got0_0", "x"))
			for s := 1; s < ncalls; s++ {
				for j, t := range inTypes[s] {
					cs = append(cs, eqExpr(t, fmt.Sprintf("got%d_%d", s, j), fmt.Sprintf("r%d_%d", s-1, j)))
				}
			}
			if i < k {
				cs = append(cs, fmt.Sprintf("err == err%d", i))
				for j, r := range last {
					cs = append(cs, zeroCheck(r, fmt.Sprintf("o%d", j)))
				}
			} else {
				cs = append(cs, "err == nil")
				for j, r := range last {
					cs = append(cs, eqExpr(r, fmt.Sprintf("o%d", j), fmt.Sprintf("r%d_%d", k-1, j)))
				}
			}
			label := fmt.Sprintf("first failure at stage %d: later stages not called, that error returned, zero results", i)
			if i == k {
				label = "no failure: sequential composition, nil error"
			}
			fmt.Fprintf(&b, "\tif %s {\n\t\tvx.Assert(len(log) == %d && %s, %q)\n\t}\n", strings.Join(cond, " && "), ncalls, strings.Join(cs[1:], " && "), label)
		}
		return []HarnessSrc{h("VX_C16_compose_"+id, "compose", b.String())}
	}}
}

func c16Others() []CaseInst {
	I, S, PL := B("int"), B("string"), Ptr(leafTy)
	var out []CaseInst
	// Traverse
	out = append(out, CaseInst{ID: "K10", Desc: "traverse func(string) (int, error)", Gen: func(g *Gen, id string) []HarnessSrc {
		g.addFunc("c16err", c16Err)
		body := fmt.Sprintf("\tlist := %s\n\tsnap := append([]string(nil), list...)\n\tfailAt := vx.Nondet[int](\"failAt\")\n\tvar log []string\n\tvar res []int\n\tvar lastErr error\n"+
			"\tf := func(s string) (int, error) {\n\t\ti := len(log)\n\t\tlog = append(log, s)\n\t\tif i == failAt {\n\t\t\tlastErr = &vxErr{i}\n\t\t\treturn vx.Nondet[int](\"junk\"), lastErr\n\t\t}\n\t\tr := vx.Nondet[int](\"r\")\n\t\tres = append(res, r)\n\t\treturn r, nil\n\t}\n"+
			"\tout, err := deriveTraverse%s(f, list)\n"+
			"\tif failAt >= 0 && failAt < len(snap) {\n\t\tok := len(log) == failAt+1 && err == lastErr && err != nil && out == nil\n\t\tfor i := 0; i < len(log) && i < len(snap); i++ {\n\t\t\tif log[i] != snap[i] {\n\t\t\t\tok = false\n\t\t\t}\n\t\t}\n\t\tvx.Assert(ok, \"stops at the first failure, returns that error and a nil slice\")\n"+
			"\t} else {\n\t\tok := len(log) == len(snap) && err == nil && len(out) == len(snap)\n\t\tfor i := 0; i < len(log) && i < len(snap); i++ {\n\t\t\tif log[i] != snap[i] {\n\t\t\t\tok = false\n\t\t\t}\n\t\t}\n\t\tfor i := 0; i < len(out) && i < len(res); i++ {\n\t\t\tif out[i] != res[i] {\n\t\t\t\tok = false\n\t\t\t}\n\t\t}\n\t\tvx.Assert(ok, \"no failure: f applied to every element in order\")\n\t}\n",
			nd(Slice(S), "list"), id)
		return []HarnessSrc{h("VX_C16_traverse_"+id, "traverse", body)}
	}})
	// ToError
	out = append(out, CaseInst{ID: "K11", Desc: "toerror func(string) (int, *Leaf, bool)", Gen: func(g *Gen, id string) []HarnessSrc {
		g.declare(leafTy)
		g.addFunc("c16err", c16Err)
		body := fmt.Sprintf("\tx := %s\n\tr0 := %s\n\tr1 := %s\n\tsucc := vx.Nondet[bool](\"ok\")\n\tcalls := 0\n\tvar got string\n\tmyErr := error(&vxErr{1})\n"+
			"\tf := func(s string) (int, *Leaf, bool) {\n\t\tcalls++\n\t\tgot = s\n\t\treturn r0, r1, succ\n\t}\n"+
			"\to0, o1, err := deriveToError%s(myErr, f)(x)\n\tvx.Assert(calls == 1 && got == x && o0 == r0 && o1 == r1, \"f called once, other results passed through\")\n"+
			"\tvx.Assert((succ && err == nil) || (!succ && err == myErr), \"nil when f reports true, exactly the supplied error otherwise\")\n",
			nd(S, "x"), nd(I, "r0"), nd(PL, "r1"), id)
		return []HarnessSrc{h("VX_C16_toerror_"+id, "toerror", body)}
	}})
	// ToError over functions whose parameter names are the identifiers the generated closure uses itself
	out = append(out, CaseInst{ID: "K14", Desc: "toerror func(err error) (int, bool)", Gen: func(g *Gen, id string) []HarnessSrc {
		g.addFunc("c16err", c16Err)
		body := fmt.Sprintf("\tr0 := %s\n\tsucc := vx.Nondet[bool](\"ok\")\n\tcalls := 0\n\tvar got error\n\tmyErr := error(&vxErr{1})\n\targErr := error(&vxErr{2})\n"+
			"\tf := func(err error) (int, bool) {\n\t\tcalls++\n\t\tgot = err\n\t\treturn r0, succ\n\t}\n"+
			"\to0, err := deriveToError%s(myErr, f)(argErr)\n\tvx.Assert(calls == 1 && got == argErr && o0 == r0, \"f called once with the argument, other results passed through\")\n"+
			"\tvx.Assert((succ && err == nil) || (!succ && err == myErr), \"nil when f reports true, exactly the SUPPLIED error otherwise (not f's argument)\")\n",
			nd(I, "r0"), id)
		return []HarnessSrc{h("VX_C16_toerror_"+id, "toerror", body)}
	}})
	out = append(out, CaseInst{ID: "K15", Desc: "toerror func(success string, out0 int, in0 int) (int, bool)", Gen: func(g *Gen, id string) []HarnessSrc {
		g.addFunc("c16err", c16Err)
		body := fmt.Sprintf("\tx := %s\n\ty := %s\n\tr0 := %s\n\tsucc := vx.Nondet[bool](\"ok\")\n\tcalls := 0\n\tvar gotS string\n\tvar gotI int\n\tmyErr := error(&vxErr{1})\n"+
			"\tf := func(success string, out0 int, in0 int) (int, bool) {\n\t\tcalls++\n\t\tgotS, gotI = success, out0+in0\n\t\treturn r0, succ\n\t}\n"+
			"\to0, err := deriveToError%s(myErr, f)(x, y, 7)\n\tvx.Assert(calls == 1 && gotS == x && gotI == y+7 && o0 == r0, \"f called once with the arguments, other results passed through\")\n"+
			"\tvx.Assert((succ && err == nil) || (!succ && err == myErr), \"nil when f reports true, exactly the supplied error otherwise\")\n",
			nd(S, "x"), nd(I, "y"), nd(I, "r0"), id)
		return []HarnessSrc{h("VX_C16_toerror_"+id, "toerror", body)}
	}})
	// Fmap error form: deriveFmap(func(A) (B, error), func() (A, error)) (func() (B, error), error)
	out = append(out, CaseInst{ID: "K12", Desc: "fmap func(string) (int, error) over func() (string, error)", Gen: func(g *Gen, id string) []HarnessSrc {
		g.addFunc("c16err", c16Err)
		body := fmt.Sprintf("\tvar log []int\n\tgfail := vx.Nondet[bool](\"gfail\")\n\tffail := vx.Nondet[bool](\"ffail\")\n\tgerr := error(&vxErr{0})\n\tferr := error(&vxErr{1})\n\tgv := %s\n\tfv := %s\n\tvar got string\n"+
			"\tgf := func() (string, error) {\n\t\tlog = append(log, 0)\n\t\tif gfail {\n\t\t\treturn vx.Nondet[string](\"junk\"), gerr\n\t\t}\n\t\treturn gv, nil\n\t}\n"+
			"\tff := func(s string) (int, error) {\n\t\tlog = append(log, 1)\n\t\tgot = s\n\t\tif ffail {\n\t\t\treturn vx.Nondet[int](\"junk2\"), ferr\n\t\t}\n\t\treturn fv, nil\n\t}\n"+
			"\tres, err := deriveFmapE%s(ff, gf)\n"+
			"\tif gfail {\n\t\tvx.Assert(len(log) == 1 && log[0] == 0 && err == gerr && res == nil, \"g failed: f not applied, g's error returned\")\n\t\treturn\n\t}\n"+
			"\tvx.Assert(err == nil && res != nil && len(log) == 2 && log[0] == 0 && log[1] == 1 && got == gv, \"g succeeded: f applied once to g's value\")\n"+
			"\tif err == nil && res != nil {\n\t\tv, e := res()\n\t\tvx.Assert(len(log) == 2 && ((ffail && e == ferr) || (!ffail && e == nil && v == fv)), \"result carries f's results\")\n\t}\n",
			nd(S, "gv"), nd(I, "fv"), id)
		// plain form: deriveFmap(func(A) B, func() (A, error)) (B, error)
		body2 := fmt.Sprintf("\tcalls := 0\n\tgfail := vx.Nondet[bool](\"gfail\")\n\tgerr := error(&vxErr{0})\n\tgv := %s\n\tfv := %s\n\tvar got string\n"+
			"\tgf := func() (string, error) {\n\t\tif gfail {\n\t\t\treturn vx.Nondet[string](\"junk\"), gerr\n\t\t}\n\t\treturn gv, nil\n\t}\n"+
			"\tff := func(s string) *Leaf {\n\t\tcalls++\n\t\tgot = s\n\t\treturn fv\n\t}\n"+
			"\tres, err := deriveFmapP%s(ff, gf)\n"+
			"\tvx.Assert((gfail && calls == 0 && err == gerr && res == nil) || (!gfail && calls == 1 && got == gv && err == nil && res == fv), \"fmap over a tuple with error\")\n",
			nd(S, "gv"), nd(PL, "fv"), id)
		g.declare(leafTy)
		return []HarnessSrc{h("VX_C16_fmaperr_"+id, "fmaperr", body), h("VX_C16_fmapplain_"+id, "fmapplain", body2)}
	}})
	// Join error form: deriveJoin(func() (T, error), error) func() (T, error)
	out = append(out, CaseInst{ID: "K13", Desc: "join (func() (*Leaf, error), error)", Gen: func(g *Gen, id string) []HarnessSrc {
		g.declare(leafTy)
		g.addFunc("c16err", c16Err)
		body := fmt.Sprintf("\tcalls := 0\n\touter := vx.Nondet[bool](\"outerfail\")\n\tinner := vx.Nondet[bool](\"innerfail\")\n\toerr := error(&vxErr{0})\n\tierr := error(&vxErr{1})\n\tv := %s\n"+
			"\tf := func() (*Leaf, error) {\n\t\tcalls++\n\t\tif inner {\n\t\t\treturn %s, ierr\n\t\t}\n\t\treturn v, nil\n\t}\n"+
			"\tvar e error\n\tif outer {\n\t\te = oerr\n\t}\n\tr, err := deriveJoinE%s(f, e)\n"+
			"\tif outer {\n\t\tvx.Assert(calls == 0 && err == oerr && r == nil, \"outer error: inner not evaluated, that error, zero value\")\n\t} else if inner {\n\t\tvx.Assert(calls == 1 && err == ierr, \"inner error returned\")\n\t} else {\n\t\tvx.Assert(calls == 1 && err == nil && r == v, \"no failure: inner tuple\")\n\t}\n",
			nd(PL, "v"), nd(PL, "junk"), id)
		return []HarnessSrc{h("VX_C16_joinerr_"+id, "joinerr", body)}
	}})
	return out
}

func c16CaseInsts(tier string) []CaseInst {
	I, S, PL, Bo := B("int"), B("string"), Ptr(leafTy), B("bool")
	cs := []CaseInst{
		c16Compose("K01", [][]*Ty{{I}, {PL}}, S),
		c16Compose("K02", [][]*Ty{{I, S}, {Bo}, {Slice(I), Map(S, I)}}, S),
		c16Compose("K03", [][]*Ty{{S}, {}, {I}}, I),
		c16Compose("K04", [][]*Ty{{I}, {leafTy}}, S),           // F7: struct result
		c16Compose("K05", [][]*Ty{{I}, {Named("NInt", I)}}, S), // F7: named basic result
		c16Compose("K06", [][]*Ty{{I}, {Array(2, I)}}, S),      // F7: array result
		c16Compose("K07", [][]*Ty{{I}, {S, Bo, B("float64")}}, S),
	}
	if tier != "quick" {
		cs = append(cs, c16Compose("K08", [][]*Ty{{I}, {S}, {Bo}, {PL}}, S))
	}
	return append(cs, c16Others()...)
}

// ---------- C17 ----------

func c17CaseInsts(tier string) []CaseInst {
	I, S, PL := B("int"), B("string"), Ptr(leafTy)
	var out []CaseInst
	fm := func(id string, A, Bt *Ty) CaseInst {
		return CaseInst{ID: id, Desc: fmt.Sprintf("fmap func(%s) %s", A.Expr(), Bt.Expr()), Gen: func(g *Gen, id string) []HarnessSrc {
			g.declare(leafTy)
			LT, RT := Slice(A), Slice(Bt)
			body := fmt.Sprintf("\tlist := %s\n\tsnap := append(%s(nil), list...)\n\tvar log %s\n\tvar res %s\n"+
				"\tf := func(a %s) %s {\n\t\tr := %s\n\t\tlog = append(log, a)\n\t\tres = append(res, r)\n\t\treturn r\n\t}\n\tout := deriveFmap%s(f, list)\n"+
				"\tok := len(out) == len(snap) && len(log) == len(snap)\n\tfor i := 0; i < len(snap); i++ {\n\t\tif i < len(log) && !%s {\n\t\t\tok = false\n\t\t}\n\t\tif i < len(out) && i < len(res) && !%s {\n\t\t\tok = false\n\t\t}\n\t\tif i < len(list) && !%s {\n\t\t\tok = false\n\t\t}\n\t}\n"+
				"\tvx.Assert(ok, \"same length, out[i] = f(list[i]), f called once per element in order, input unchanged\")\n",
				nd(LT, "list"), LT.Expr(), LT.Expr(), RT.Expr(), A.Expr(), Bt.Expr(), nd(Bt, "r"), id,
				eqExpr(A, "log[i]", "snap[i]"), eqExpr(Bt, "out[i]", "res[i]"), eqExpr(A, "list[i]", "snap[i]"))
			return []HarnessSrc{h("VX_C17_fmap_"+id, "fmap", body)}
		}}
	}
	out = append(out, fm("M01", I, S), fm("M02", S, PL), fm("M03", PL, I))
	// Fmap over a string
	out = append(out, CaseInst{ID: "M04", Desc: "fmap func(rune) int over string", Gen: func(g *Gen, id string) []HarnessSrc {
		mk := func(name, assume, label string) HarnessSrc {
			body := fmt.Sprintf("\ts := vx.NondetOpt[string](\"s\", \"str=4\")\n%s\trunes := []rune(s)\n\tvar log []rune\n\tvar res []int\n"+
				"\tf := func(r rune) int {\n\t\tv := vx.Nondet[int](\"r\")\n\t\tlog = append(log, r)\n\t\tres = append(res, v)\n\t\treturn v\n\t}\n\tout := deriveFmapS%s(f, s)\n"+
				"\tok := len(out) == len(runes) && len(log) == len(runes)\n\tfor i := 0; i < len(runes); i++ {\n\t\tif i < len(log) && log[i] != runes[i] {\n\t\t\tok = false\n\t\t}\n\t\tif i < len(out) && i < len(res) && out[i] != res[i] {\n\t\t\tok = false\n\t\t}\n\t}\n\tvx.Assert(ok, %q)\n",
				assume, id, label)
			return h(name, "fmapstr", body)
		}
		ascii := "\tfor i := 0; i < len(s); i++ {\n\t\tvx.Assume(s[i] < 0x80)\n\t}\n"
		a := mk("VX_C17_fmapstr_"+id, ascii, "one result per rune (ASCII strings; outside the F9 region)")
		b := mk("VX_C17_fmapstr_"+id+"__KF_F9", "", "one result per rune, for any string incl. multi-byte and invalid UTF-8")
		b.KF = "F9"
		return []HarnessSrc{a, b}
	}})
	// Join of slices
	jn := func(id string, E *Ty) CaseInst {
		return CaseInst{ID: id, Desc: "join [][]" + E.Expr(), Gen: func(g *Gen, id string) []HarnessSrc {
			g.declare(leafTy)
			LL := Slice(Slice(E))
			g.RefClone(LL)
			// spare capacity of the inner lists is part of the caller's memory (seed C17-e: appending into the
			// first inner list when it has room); snapshot it, and afterwards write through the result
			spare := fmt.Sprintf("\tvar spare [][]%s\n\tfor i := 0; i < len(ll); i++ {\n\t\tfull := ll[i][:cap(ll[i])]\n\t\tvar c []%s\n\t\tfor j := 0; j < len(full); j++ {\n\t\t\tc = append(c, full[j])\n\t\t}\n\t\tspare = append(spare, c)\n\t}\n", E.Expr(), E.Expr())
			spareChk := fmt.Sprintf("\tsok := true\n\tfor i := 0; i < len(ll) && i < len(spare); i++ {\n\t\tfull := ll[i][:cap(ll[i])]\n\t\tif len(full) != len(spare[i]) {\n\t\t\tsok = false\n\t\t}\n\t\tfor j := 0; j < len(full) && j < len(spare[i]); j++ {\n\t\t\tif !%s {\n\t\t\t\tsok = false\n\t\t\t}\n\t\t}\n\t}\n\tvx.Assert(sok, \"inner lists incl. their spare capacity not modified\")\n", eqExpr(E, "full[j]", "spare[i][j]"))
			alias := fmt.Sprintf("\tw := %s\n\tfor i := 0; i < len(out); i++ {\n\t\tout[i] = w\n\t}\n\tvx.Assert(%s(ll, snap), \"result shares no memory with the inputs\")\n", nd(E, "w"), g.RefEq(LL))
			body := fmt.Sprintf("\tll := %s\n\tsnap := %s(ll)\n"+spare+"\tout := deriveJoin%s(ll)\n"+
				"\tif ll == nil {\n\t\tvx.Assert(out == nil, \"nil for nil\")\n\t\treturn\n\t}\n"+
				"\tvar exp %s\n\tfor i := 0; i < len(snap); i++ {\n\t\tfor j := 0; j < len(snap[i]); j++ {\n\t\t\texp = append(exp, snap[i][j])\n\t\t}\n\t}\n"+
				"\tok := len(out) == len(exp)\n\tfor i := 0; i < len(out) && i < len(exp); i++ {\n\t\tif !%s {\n\t\t\tok = false\n\t\t}\n\t}\n\tvx.Assert(ok, \"concatenation in order\")\n"+
				"\tvx.Assert(%s(ll, snap), \"inputs not modified\")\n"+spareChk+alias,
				// three inner lists: a wrong write offset only shows from the third one on (seed C17-d)
				ndo(LL, "ll", "len=3,cap=1,str=1"), g.RefClone(LL), id, Slice(E).Expr(), eqExpr(E, "out[i]", "exp[i]"), g.RefEq(LL))
			return []HarnessSrc{h("VX_C17_join_"+id, "join", body)}
		}}
	}
	out = append(out, jn("M05", I), jn("M06", S))
	out = append(out, CaseInst{ID: "M07", Desc: "join []string", Gen: func(g *Gen, id string) []HarnessSrc {
		body := fmt.Sprintf("\tss := %s\n\tsnap := append([]string(nil), ss...)\n\tout := deriveJoinS%s(ss)\n\texp := \"\"\n\tfor i := 0; i < len(snap); i++ {\n\t\texp += snap[i]\n\t}\n"+
			"\tvx.Assert(out == exp, \"concatenation of the strings\")\n\tok := len(ss) == len(snap)\n\tfor i := 0; i < len(ss) && i < len(snap); i++ {\n\t\tif ss[i] != snap[i] {\n\t\t\tok = false\n\t\t}\n\t}\n\tvx.Assert(ok, \"inputs not modified\")\n",
			ndo(Slice(S), "ss", "len=3,cap=1,str=2"), id)
		return []HarnessSrc{h("VX_C17_joinstr_"+id, "joinstr", body)}
	}})
	return out
}

// ---------- C18 ----------

type memCase struct {
	ID      string
	Params  []*Ty
	Results []*Ty
}

func c18CaseInsts(tier string) []CaseInst {
	I, S, PL, Bo := B("int"), B("string"), Ptr(leafTy), B("bool")
	cases := []memCase{
		{"N01", []*Ty{I}, []*Ty{I}},
		{"N02", []*Ty{S}, []*Ty{S, Bo}},
		{"N03", []*Ty{PL, I}, []*Ty{S}},
		{"N04", []*Ty{Slice(I)}, []*Ty{I}},
		{"N05", nil, []*Ty{I}},
		{"N06", []*Ty{I}, nil},
		{"N07", []*Ty{I, S, Bo}, []*Ty{I, S, PL}},
		{"N10", nil, nil},
		{"N12", []*Ty{Slice(I)}, nil}, // one non-comparable parameter, no results
		{"N13", []*Ty{Slice(I), S}, nil},
		{"N14", []*Ty{Slice(B("uint8")), I}, []*Ty{I}}, // []byte as a field of the input struct (F2 region carved)
	}
	cases = append(cases, memCase{"N08", []*Ty{Map(S, I)}, []*Ty{I}}) // a map argument: its hash must not depend on iteration order
	if tier != "quick" {
		cases = append(cases, memCase{"N09", []*Ty{leafTy, Named("NInt", I)}, []*Ty{Bo}})
	}
	var out []CaseInst
	for _, mc := range cases {
		mc := mc
		var ps, rs []string
		for _, p := range mc.Params {
			ps = append(ps, p.Expr())
		}
		for _, r := range mc.Results {
			rs = append(rs, r.Expr())
		}
		out = append(out, CaseInst{ID: mc.ID, Desc: "mem func(" + strings.Join(ps, ", ") + ") (" + strings.Join(rs, ", ") + ")", Gen: func(g *Gen, id string) []HarnessSrc {
			g.declare(leafTy)
			for _, p := range mc.Params {
				g.declare(p)
			}
			np, nr := len(mc.Params), len(mc.Results)
			hasBytes := false
			for _, p := range mc.Params {
				if p.K == "slice" && p.Elem.K == "basic" && p.Elem.Name == "uint8" {
					hasBytes = true
				}
			}
			build := func(carveF2 bool) string {
				var b strings.Builder
				// f's own table: argument tuples seen and the results it gave (f is deterministic by construction)
				for i, p := range mc.Params {
					fmt.Fprintf(&b, "\tvar seen%d []%s\n", i, p.Expr())
				}
				for i, r := range mc.Results {
					fmt.Fprintf(&b, "\tvar gave%d []%s\n", i, r.Expr())
				}
				b.WriteString("\tn, dup := 0, 0\n")
				var fps, same, recA, recR, retOld, retNew, rts []string
				for i, p := range mc.Params {
					fps = append(fps, fmt.Sprintf("p%d %s", i, p.Expr()))
					// classes are those of DERIVED Equal (the relation Mem itself uses); f is a function of the class
					if p.K == "basic" {
						same = append(same, fmt.Sprintf("(seen%d[k] == p%d)", i, i))
					} else {
						same = append(same, fmt.Sprintf("deriveEqualM%s_%d(seen%d[k], p%d)", id, i, i, i))
					}
					recA = append(recA, fmt.Sprintf("\t\tseen%d = append(seen%d, p%d)\n", i, i, i))
				}
				for i, r := range mc.Results {
					rts = append(rts, r.Expr())
					retOld = append(retOld, fmt.Sprintf("gave%d[k]", i))
					retNew = append(retNew, fmt.Sprintf("v%d", i))
					recR = append(recR, fmt.Sprintf("\t\tv%d := %s\n\t\tgave%d = append(gave%d, v%d)\n", i, nd(r, fmt.Sprintf("v%d", i)), i, i, i))
				}
				sameC := "true"
				if len(same) > 0 {
					sameC = strings.Join(same, " && ")
				}
				retSig := ""
				if nr > 0 {
					retSig = " (" + strings.Join(rts, ", ") + ")"
				}
				ro, rn := "", ""
				if nr > 0 {
					ro = "\t\t\t\treturn " + strings.Join(retOld, ", ") + "\n"
					rn = "\t\treturn " + strings.Join(retNew, ", ") + "\n"
				} else {
					ro = "\t\t\t\treturn\n"
				}
				fmt.Fprintf(&b, "\tf := func(%s)%s {\n\t\tfor k := 0; k < n; k++ {\n\t\t\tif %s {\n\t\t\t\tdup++\n%s\t\t\t}\n\t\t}\n%s%s\t\tn++\n%s\t}\n",
					strings.Join(fps, ", "), retSig, sameC, ro, strings.Join(recA, ""), strings.Join(recR, ""), rn)
				fmt.Fprintf(&b, "\tm := deriveMem%s(f)\n", id)
				calls := 3
			for _, p := range mc.Params {
				if p.K == "map" {
					calls = 2 // two-entry maps under symbolic iteration orders: three calls exceed the solver budget
				}
			}
				for c := 0; c < calls; c++ {
					var as []string
					for i, p := range mc.Params {
						opt := "len=1,cap=0,str=1,map=1"
					if p.K == "map" {
						opt = "len=1,cap=0,str=1,map=2" // two entries: the derived hash must not depend on their iteration order
					}
					fmt.Fprintf(&b, "\ta%d_%d := %s\n", c, i, ndo(p, fmt.Sprintf("a%d_%d", c, i), opt))
						if carveF2 && p.K == "slice" && p.Elem.K == "basic" && p.Elem.Name == "uint8" {
							// outside known finding F2: no empty non-nil []byte among the arguments
							fmt.Fprintf(&b, "\tvx.Assume((a%d_%d == nil) == (len(a%d_%d) == 0))\n", c, i, c, i)
						}
						as = append(as, fmt.Sprintf("a%d_%d", c, i))
					}
					var os []string
					for i := range mc.Results {
						os = append(os, fmt.Sprintf("o%d_%d", c, i))
					}
					if nr > 0 {
						fmt.Fprintf(&b, "\t%s := m(%s)\n", strings.Join(os, ", "), strings.Join(as, ", "))
					} else {
						fmt.Fprintf(&b, "\tm(%s)\n", strings.Join(as, ", "))
					}
					// the class of this argument tuple must be in f's table now, with these results
					var sm []string
					for i, p := range mc.Params {
						sm = append(sm, fmt.Sprintf("%s(seen%d[k], a%d_%d)", g.RefEq(p), i, c, i))
					}
					smC := "true"
					if len(sm) > 0 {
						smC = strings.Join(sm, " && ")
					}
					var rc []string
					for i, r := range mc.Results {
						rc = append(rc, eqExpr(r, fmt.Sprintf("o%d_%d", c, i), fmt.Sprintf("gave%d[k]", i)))
					}
					rcC := "true"
					if len(rc) > 0 {
						rcC = strings.Join(rc, " && ")
					}
					fmt.Fprintf(&b, "\tfound%d := false\n\tfor k := 0; k < n; k++ {\n\t\tif %s {\n\t\t\tfound%d = %s\n\t\t}\n\t}\n\tvx.Assert(found%d, \"call %d returns what f returns for that argument class\")\n", c, smC, c, rcC, c, c+1)
				}
				_ = np
				b.WriteString("\tvx.Assert(dup == 0, \"f invoked at most once per class of Equal argument tuples\")\n")
				return b.String()
			}
			// ([]byte next to other parameters travels as a field of Mem's input struct, where derived Equal uses
			// bytes.Equal; F2 does not become observable here: the differing hash keeps nil and empty apart, and the
			// classes of this harness are those of derived Equal on each argument. Case N14 covers the shape.)
			_ = hasBytes
			return []HarnessSrc{h("VX_C18_mem_"+id, "mem", build(false))}
		}})
	}
	return out
}
