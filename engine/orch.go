package main

import (
	"bytes"
	"context"
	"encoding/json"
	"fmt"
	"os"
	"os/exec"
	"path/filepath"
	"sort"
	"strings"
	"sync"
	"time"
)

const modPath = "github.com/awalterschulze/goderive"

func verifDir() string {
	if d := os.Getenv("VERIF_DIR"); d != "" {
		return d
	}
	// the tree this binary was built in (bin/vcheck): a copy of /verif run from elsewhere (a snapshot) reads its
	// own harnesses and writes its own evidence instead of touching /verif
	if exe, err := os.Executable(); err == nil {
		root := filepath.Dir(filepath.Dir(exe))
		if _, err := os.Stat(filepath.Join(root, "harness")); err == nil {
			return root
		}
	}
	return "/verif"
}
func repoDir() string {
	if d := os.Getenv("VERIF_REPO"); d != "" {
		return d
	}
	return "/repo"
}

func goEnv() []string {
	env := []string{}
	for _, e := range os.Environ() {
		if strings.HasPrefix(e, "PATH=") || strings.HasPrefix(e, "GOFLAGS=") || strings.HasPrefix(e, "GOTOOLCHAIN=") ||
			strings.HasPrefix(e, "GOPROXY=") || strings.HasPrefix(e, "GOSUMDB=") || strings.HasPrefix(e, "GO111MODULE=") {
			continue
		}
		env = append(env, e)
	}
	env = append(env, "PATH=/opt/veriftools/go1.26.8/bin:"+os.Getenv("PATH"), "GOTOOLCHAIN=local", "GOPROXY=off", "GOSUMDB=off", "GOFLAGS=-mod=vendor")
	return env
}

func runCmd(dir string, env []string, timeout time.Duration, name string, args ...string) (string, int, error) {
	ctx, cancel := context.WithTimeout(context.Background(), timeout)
	defer cancel()
	cmd := exec.CommandContext(ctx, name, args...)
	cmd.Dir = dir
	cmd.Env = env
	var buf bytes.Buffer
	cmd.Stdout = &buf
	cmd.Stderr = &buf
	err := cmd.Run()
	code := 0
	if err != nil {
		code = -1
		if ee, ok := err.(*exec.ExitError); ok {
			code = ee.ExitCode()
		}
		if ctx.Err() != nil {
			return buf.String(), -2, fmt.Errorf("timeout after %s", timeout)
		}
	}
	return buf.String(), code, err
}

// Scratch is a scratch copy of /repo's working tree with goderive built from it.
type Scratch struct {
	Dir      string // root
	Repo     string // Dir/repo
	Goderive string
}

func NewScratch() (*Scratch, error) {
	base := os.Getenv("VERIF_SCRATCH")
	dir, err := os.MkdirTemp(base, "vx-")
	if err != nil {
		return nil, err
	}
	s := &Scratch{Dir: dir, Repo: filepath.Join(dir, "repo"), Goderive: filepath.Join(dir, "goderive")}
	if out, _, err := runCmd("/", os.Environ(), 5*time.Minute, "rsync", "-a", "--exclude", ".git", repoDir()+"/", s.Repo+"/"); err != nil {
		s.Close()
		return nil, fmt.Errorf("copy repo: %v %s", err, out)
	}
	if out, _, err := runCmd(s.Repo, goEnv(), 10*time.Minute, "go", "build", "-o", s.Goderive, "."); err != nil {
		s.Close()
		return nil, fmt.Errorf("BUILD-FAILED: goderive does not build from the current tree: %v\n%s", err, out)
	}
	if out, _, err := runCmd("/", os.Environ(), time.Minute, "rsync", "-a", verifDir()+"/vxlib/", s.Repo+"/vxlib/"); err != nil {
		s.Close()
		return nil, fmt.Errorf("copy vxlib: %v %s", err, out)
	}
	return s, nil
}

func (s *Scratch) Close() {
	if os.Getenv("VERIF_KEEP") != "" {
		fmt.Fprintln(os.Stderr, "keeping scratch", s.Dir)
		return
	}
	os.RemoveAll(s.Dir)
}

// FixPkg is one generated fixture package.
type FixPkg struct {
	Rel       string // path relative to repo, e.g. vxfix/C02/p03
	Insts     []Inst
	Files     map[string]string
	Harnesses []HarnessSrc
	GenOut    string
	GenCode   int
	GenOK     bool
	LoadErr   string
}

func buildFixPkg(rel string, insts []Inst, pg PropGen, tier string) *FixPkg {
	g := NewGen()
	fp := &FixPkg{Rel: rel, Insts: insts, Files: map[string]string{}}
	for _, in := range insts {
		fp.Harnesses = append(fp.Harnesses, pg(g, in, tier)...)
	}
	pkgName := filepath.Base(rel)
	var types strings.Builder
	if g.needMath {
		fmt.Fprintf(&types, "package %s\n\nimport (\n\t\"math\"\n\n\t\"%s/vxlib/vx\"\n)\n\nvar _ = vx.Cover\n\n", pkgName, modPath)
	} else {
		fmt.Fprintf(&types, "package %s\n\nimport \"%s/vxlib/vx\"\n\nvar _ = vx.Cover\n\n", pkgName, modPath)
	}
	types.WriteString(g.Decls())
	types.WriteString(g.Funcs())
	fp.Files["types.go"] = types.String()
	var hs strings.Builder
	fmt.Fprintf(&hs, "package %s\n\nimport \"%s/vxlib/vx\"\n\n", pkgName, modPath)
	for _, h := range fp.Harnesses {
		hs.WriteString(h.Src)
		hs.WriteString("\n")
	}
	fp.Files["harness.go"] = hs.String()
	var rt strings.Builder
	fmt.Fprintf(&rt, "package %s\n\nimport (\n\t\"testing\"\n\n\t\"%s/vxlib/vx\"\n)\n\nfunc TestVXReplay(t *testing.T) {\n\tvx.Replay(t, map[string]func(){\n", pkgName, modPath)
	for _, h := range fp.Harnesses {
		fmt.Fprintf(&rt, "\t\t%q: %s,\n", h.Name, h.Name)
	}
	rt.WriteString("\t})\n}\n")
	fp.Files["zz_replay_test.go"] = rt.String()
	return fp
}

func (s *Scratch) writePkg(fp *FixPkg) error {
	dir := filepath.Join(s.Repo, fp.Rel)
	os.RemoveAll(dir)
	if err := os.MkdirAll(dir, 0o755); err != nil {
		return err
	}
	for n, c := range fp.Files {
		if err := os.WriteFile(filepath.Join(dir, n), []byte(c), 0o644); err != nil {
			return err
		}
	}
	return nil
}

func (s *Scratch) runGoderive(fp *FixPkg, extra ...string) {
	args := append(append([]string{}, extra...), "./"+fp.Rel)
	out, code, _ := runCmd(s.Repo, goEnv(), 3*time.Minute, s.Goderive, args...)
	fp.GenOut, fp.GenCode = out, code
	fp.GenOK = code == 0
}

func parallel(n, workers int, f func(i int)) {
	var wg sync.WaitGroup
	ch := make(chan int)
	for w := 0; w < workers; w++ {
		wg.Add(1)
		go func() {
			defer wg.Done()
			for i := range ch {
				f(i)
			}
		}()
	}
	for i := 0; i < n; i++ {
		ch <- i
	}
	close(ch)
	wg.Wait()
}

// vetPkg type-checks a fixture package (with its generated file) using go vet's front end.
func (s *Scratch) vetPkg(fp *FixPkg) (string, bool) {
	out, code, _ := runCmd(s.Repo, goEnv(), 3*time.Minute, "go", "vet", "./"+fp.Rel)
	return out, code == 0
}

type FEFailure struct {
	Pkg    string   `json:"pkg"`
	Types  []string `json:"types"`
	IDs    []string `json:"ids"`
	Stage  string   `json:"stage"` // goderive | typecheck
	Output string   `json:"output"`
}

type Replayed struct {
	Harness string `json:"harness"`
	Pkg     string `json:"pkg"`
	Outcome string `json:"outcome"`
	Path    string `json:"path,omitempty"`
}

// replayModel runs the harness natively against the model; returns the REPLAY outcome line.
func (s *Scratch) replayModel(rel string, m *Model) string {
	data, _ := json.MarshalIndent(m, "", " ")
	mp := filepath.Join(s.Dir, fmt.Sprintf("model_%s.json", m.Harness))
	os.WriteFile(mp, data, 0o644)
	env := append(goEnv(), "VX_MODEL="+mp)
	out, _, _ := runCmd(s.Repo, env, 5*time.Minute, "go", "test", "-v", "-vet=off", "-count=1", "-timeout", "30s", "-run", "^TestVXReplay$", "./"+rel)
	first := ""
	if !strings.Contains(out, "REPLAY: ") && (strings.Contains(out, "all goroutines are asleep") || strings.Contains(out, "test timed out")) {
		return "panic native run blocked forever (deadlock / test timed out after 30s)"
	}
	if i := strings.Index(out, "\npanic: "); i >= 0 && !strings.Contains(out, "REPLAY: ") {
		return "panic in a goroutine of the native run: " + firstLine(out[i+1:])
	}
	for _, l := range strings.Split(out, "\n") {
		if strings.HasPrefix(l, "REPLAY: ") {
			first = strings.TrimPrefix(l, "REPLAY: ")
			break
		}
	}
	if first == "passed" {
		// the model may depend on the runtime's map iteration order, which cannot be forced: retry
		out2, _, _ := runCmd(s.Repo, env, 5*time.Minute, "go", "test", "-v", "-vet=off", "-count=150", "-cpu", "1,2,8", "-timeout", "240s", "-run", "^TestVXReplay$", "./"+rel)
		if strings.Contains(out2, "all goroutines are asleep") || strings.Contains(out2, "test timed out") {
			return "panic native run blocked forever in some of 450 runs (deadlock / test timed out)"
		}
		if i := strings.Index(out2, "\npanic: "); i >= 0 {
			return "panic in a goroutine in some of 450 native runs: " + firstLine(out2[i+1:])
		}
		n, bad := 0, ""
		for _, l := range strings.Split(out2, "\n") {
			if strings.HasPrefix(l, "REPLAY: ") {
				n++
				o := strings.TrimPrefix(l, "REPLAY: ")
				if strings.HasPrefix(o, "assert-failed") || strings.HasPrefix(o, "panic") {
					bad = o
				}
			}
		}
		if bad != "" {
			return bad + fmt.Sprintf(" (in some of %d native runs: depends on the runtime's map iteration order or goroutine schedule)", n+1)
		}
		return "passed"
	}
	if first != "" {
		return first
	}
	if len(out) > 600 {
		out = out[len(out)-600:]
	}
	return "no-outcome: " + out
}

// saveReplay stores a self-contained replay artefact under /verif/replays/<prop>/<harness>/.
func saveReplay(s *Scratch, prop string, rel string, m *Model, detail string) string {
	dir := filepath.Join(verifDir(), "replays", prop, m.Harness)
	os.RemoveAll(dir)
	os.MkdirAll(filepath.Join(dir, "pkg"), 0o755)
	src := filepath.Join(s.Repo, rel)
	ents, _ := os.ReadDir(src)
	for _, e := range ents {
		b, err := os.ReadFile(filepath.Join(src, e.Name()))
		if err == nil {
			os.WriteFile(filepath.Join(dir, "pkg", e.Name()), b, 0o644)
		}
	}
	if m != nil {
		data, _ := json.MarshalIndent(m, "", " ")
		os.WriteFile(filepath.Join(dir, "model.json"), data, 0o644)
	}
	meta := map[string]string{"property": prop, "rel": rel, "detail": detail,
		"replay": "vcheck replay " + dir}
	if m != nil {
		meta["harness"] = m.Harness
	}
	data, _ := json.MarshalIndent(meta, "", " ")
	os.WriteFile(filepath.Join(dir, "meta.json"), data, 0o644)
	return dir
}

func sortedKeys(m map[string]int) []string {
	var ks []string
	for k := range m {
		ks = append(ks, k)
	}
	sort.Strings(ks)
	return ks
}
