package main

import (
	"fmt"
	"os"
)

func main() {
	os.Setenv("PATH", "/opt/veriftools/go1.26.8/bin:"+os.Getenv("PATH"))
	os.Setenv("GOTOOLCHAIN", "local")
	os.Setenv("GOPROXY", "off")
	os.Setenv("GOSUMDB", "off")
	os.Unsetenv("GOFLAGS")
	if len(os.Args) < 2 {
		fmt.Fprintln(os.Stderr, "usage: vcheck <cmd> ...")
		os.Exit(2)
	}
	switch os.Args[1] {
	case "symx":
		os.Exit(cmdSymx(os.Args[2:]))
	case "replay":
		os.Exit(cmdReplay(os.Args[2:]))
	case "fplemma":
		os.Exit(cmdFpLemma())
	case "corpus":
		tier := "quick"
		if len(os.Args) > 2 {
			tier = os.Args[2]
		}
		for _, in := range Corpus(tier, 1) {
			fmt.Println(in.ID, in.T.Expr())
		}
	case "run":
		os.Exit(cmdRun(os.Args[2:]))
	default:
		fmt.Fprintln(os.Stderr, "unknown command", os.Args[1])
		os.Exit(2)
	}
}
