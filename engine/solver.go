package main

import (
	"bufio"
	"fmt"
	"io"
	"os/exec"
	"strconv"
	"strings"
	"sync"
	"time"
)

// A Solver is a long-lived SMT-LIB2 process driven over a pipe.
type Solver struct {
	Name string
	cmd  *exec.Cmd
	in   io.WriteCloser
	out  *bufio.Reader
	mu   sync.Mutex
	dead bool
	args []string
	log  *strings.Builder
}

var solverCmds = map[string][]string{
	"z3":     {"z3", "-in", "-smt2"},
	"z3-new": {"z3-new", "-in", "-smt2"},
	"cvc5":   {"cvc5", "--incremental", "--lang=smt2", "--produce-models"},
	"z3sat":  {"z3-new", "-in", "-smt2"}, // z3 5.1 with an explicit bit-blasting tactic (QF_BV only)
}

func StartSolver(name string) (*Solver, error) {
	args := solverCmds[name]
	if args == nil {
		return nil, fmt.Errorf("unknown solver %s", name)
	}
	s := &Solver{Name: name, args: args}
	if err := s.start(); err != nil {
		return nil, err
	}
	return s, nil
}

func (s *Solver) start() error {
	s.cmd = exec.Command(s.args[0], s.args[1:]...)
	in, err := s.cmd.StdinPipe()
	if err != nil {
		return err
	}
	out, err := s.cmd.StdoutPipe()
	if err != nil {
		return err
	}
	s.cmd.Stderr = nil
	if err := s.cmd.Start(); err != nil {
		return err
	}
	s.in = in
	s.out = bufio.NewReaderSize(out, 1<<20)
	s.dead = false
	return nil
}

func (s *Solver) Close() {
	if s.cmd != nil && s.cmd.Process != nil {
		s.in.Close()
		s.cmd.Process.Kill()
		s.cmd.Wait()
		s.cmd = nil
	}
	s.dead = true
}

// Abort kills the solver process from another goroutine (used to stop the loser of a race).
func (s *Solver) Abort() {
	defer func() { recover() }()
	if c := s.cmd; c != nil && c.Process != nil {
		c.Process.Kill()
	}
}

// solverSem bounds the number of solver queries in flight.
var solverSem = make(chan struct{}, 18)

func (s *Solver) restart() {
	s.Close()
	s.start()
}

func (s *Solver) send(txt string) error {
	_, err := io.WriteString(s.in, txt)
	return err
}

// readSexp reads one complete s-expression or atom line from the solver.
func (s *Solver) readSexp() (string, error) {
	var sb strings.Builder
	depth := 0
	started := false
	inStr := false
	for {
		c, err := s.out.ReadByte()
		if err != nil {
			return sb.String(), err
		}
		if !started {
			if c == ' ' || c == '\n' || c == '\r' || c == '\t' {
				continue
			}
			started = true
		}
		sb.WriteByte(c)
		if inStr {
			if c == '"' {
				inStr = false
			}
			continue
		}
		switch c {
		case '"':
			inStr = true
		case '(':
			depth++
		case ')':
			depth--
			if depth == 0 {
				return sb.String(), nil
			}
		case '\n':
			if depth == 0 {
				return strings.TrimSpace(sb.String()), nil
			}
		}
	}
}

type readRes struct {
	s   string
	err error
}

func (s *Solver) readTimeout(d time.Duration) (string, error) {
	ch := make(chan readRes, 1)
	go func() {
		r, err := s.readSexp()
		ch <- readRes{r, err}
	}()
	select {
	case r := <-ch:
		return r.s, r.err
	case <-time.After(d):
		// kill; the reader goroutine will end with an error
		s.cmd.Process.Kill()
		<-ch
		s.dead = true
		return "timeout", nil
	}
}

// Session holds a prefix (declarations/definitions) against which several checks are made.
type QueryResult struct {
	Status string // sat | unsat | unknown | timeout | error
	Model  map[string]uint64
	Time   time.Duration
	Solver string
	Raw    string
}

// Check runs: prefix ; (assert each) ; (check-sat) ; optional (get-value vars) in a fresh scope.
func (s *Solver) Check(prefix string, asserts []string, vars []*Term, timeout time.Duration) QueryResult {
	solverSem <- struct{}{}
	defer func() { <-solverSem }()
	s.mu.Lock()
	defer s.mu.Unlock()
	start := time.Now()
	if s.dead {
		s.Close() // reap the old process
		if err := s.start(); err != nil {
			return QueryResult{Status: "error", Raw: err.Error(), Solver: s.Name}
		}
	}
	var sb strings.Builder
	sb.WriteString("(reset)\n(set-option :produce-models true)\n")
	if s.Name == "cvc5" {
		sb.WriteString("(set-logic ALL)\n")
	}
	if strings.HasPrefix(s.Name, "z3") {
		fmt.Fprintf(&sb, "(set-option :timeout %d)\n", timeout.Milliseconds())
	}
	sb.WriteString(prefix)
	for _, a := range asserts {
		sb.WriteString("(assert " + a + ")\n")
	}
	if s.Name == "z3sat" && !strings.Contains(prefix, "declare-fun") {
		sb.WriteString("(check-sat-using (then simplify propagate-values solve-eqs elim-uncnstr bit-blast aig sat))\n")
	} else {
		sb.WriteString("(check-sat)\n")
	}
	sendErr := make(chan error, 1)
	script := sb.String()
	go func() { sendErr <- s.send(script) }()
	select {
	case err := <-sendErr:
		if err != nil {
			s.dead = true
			return QueryResult{Status: "error", Raw: err.Error(), Solver: s.Name}
		}
	case <-time.After(timeout + 300*time.Millisecond):
		// the solver did not even consume the script in time
		s.cmd.Process.Kill()
		<-sendErr
		s.dead = true
		return QueryResult{Status: "timeout", Solver: s.Name, Time: time.Since(start), Raw: "timeout while sending"}
	}
	remaining := timeout + 300*time.Millisecond - time.Since(start)
	if remaining < 100*time.Millisecond {
		remaining = 100 * time.Millisecond
	}
	res, err := s.readTimeout(remaining)
	for err == nil && (strings.HasPrefix(res, "(error") || res == "unsupported" || res == "success") {
		if strings.HasPrefix(res, "(error") {
			s.restart()
			return QueryResult{Status: "error", Raw: res, Solver: s.Name, Time: time.Since(start)}
		}
		res, err = s.readTimeout(timeout + 300*time.Millisecond)
	}
	if err != nil {
		s.dead = true
		return QueryResult{Status: "error", Raw: res + " " + err.Error(), Solver: s.Name, Time: time.Since(start)}
	}
	qr := QueryResult{Status: res, Solver: s.Name, Raw: res}
	switch res {
	case "sat":
		if len(vars) > 0 {
			var q strings.Builder
			q.WriteString("(get-value (")
			for _, v := range vars {
				q.WriteString(v.Name + " ")
			}
			q.WriteString("))\n")
			if err := s.send(q.String()); err != nil {
				s.dead = true
				qr.Status = "error"
				return qr
			}
			mv, err := s.readTimeout(30 * time.Second)
			if err != nil || strings.HasPrefix(mv, "(error") {
				qr.Status = "error"
				qr.Raw = mv
				s.restart()
				return qr
			}
			qr.Model = parseModel(mv)
		}
	case "unsat":
	case "unknown", "timeout":
		if res == "timeout" {
			qr.Status = "timeout"
		}
	default:
		qr.Status = "error"
		s.restart()
	}
	qr.Time = time.Since(start)
	return qr
}

// parseModel parses "((name value) (name value) ...)" with values #x.., #b.., true/false, (_ bvN W).
func parseModel(s string) map[string]uint64 {
	m := map[string]uint64{}
	toks := tokenize(s)
	// expect ( ( name val ) ... )
	i := 0
	next := func() string {
		if i < len(toks) {
			t := toks[i]
			i++
			return t
		}
		return ""
	}
	if next() != "(" {
		return m
	}
	for i < len(toks) {
		t := next()
		if t == ")" {
			break
		}
		if t != "(" {
			continue
		}
		name := next()
		v := next()
		var val uint64
		switch {
		case v == "true":
			val = 1
		case v == "false":
			val = 0
		case strings.HasPrefix(v, "#x"):
			val, _ = strconv.ParseUint(v[2:], 16, 64)
		case strings.HasPrefix(v, "#b"):
			val, _ = strconv.ParseUint(v[2:], 2, 64)
		case v == "(":
			// (_ bvN W)
			next() // _
			bv := next()
			next() // W
			next() // )
			val, _ = strconv.ParseUint(strings.TrimPrefix(bv, "bv"), 10, 64)
		}
		// closing paren
		for i < len(toks) && toks[i] != ")" {
			i++
		}
		i++
		m[name] = val
	}
	return m
}

func tokenize(s string) []string {
	var out []string
	cur := strings.Builder{}
	flush := func() {
		if cur.Len() > 0 {
			out = append(out, cur.String())
			cur.Reset()
		}
	}
	for _, c := range s {
		switch c {
		case '(', ')':
			flush()
			out = append(out, string(c))
		case ' ', '\n', '\t', '\r':
			flush()
		default:
			cur.WriteRune(c)
		}
	}
	flush()
	return out
}

// Pool of solver processes.
type Pool struct {
	mu   sync.Mutex
	free map[string][]*Solver
}

func NewPool() *Pool { return &Pool{free: map[string][]*Solver{}} }

func (p *Pool) Get(name string) (*Solver, error) {
	p.mu.Lock()
	if l := p.free[name]; len(l) > 0 {
		s := l[len(l)-1]
		p.free[name] = l[:len(l)-1]
		p.mu.Unlock()
		return s, nil
	}
	p.mu.Unlock()
	return StartSolver(name)
}

func (p *Pool) Put(s *Solver) {
	p.mu.Lock()
	p.free[s.Name] = append(p.free[s.Name], s)
	p.mu.Unlock()
}

func (p *Pool) CloseAll() {
	p.mu.Lock()
	defer p.mu.Unlock()
	for _, l := range p.free {
		for _, s := range l {
			s.Close()
		}
	}
	p.free = map[string][]*Solver{}
}
