package main

import (
	"fmt"
	"strings"
)

// Element-type corpus for the list / set / functional helpers.

type ElemInst struct {
	ID         string
	E          *Ty
	Comparable bool // ==-comparable
	Basic      bool // ordered basic (or named basic) kind: natural <
	Tags       map[string]bool
}

func elemCorpus(tier string) []ElemInst {
	leaf := NStruct("Leaf", F("I", B("int")), F("S", B("string")))
	var out []ElemInst
	n := 0
	add := func(e *Ty, cmp, basic bool) {
		n++
		out = append(out, ElemInst{ID: fmt.Sprintf("E%02d", n), E: e, Comparable: cmp, Basic: basic, Tags: tagOf(e)})
	}
	add(B("int"), true, true)
	add(B("string"), true, true)
	add(Named("NInt", B("int")), true, true)
	add(Ptr(leaf), false, false) // pointers are ==-comparable, but goderive treats *struct via derived Equal
	add(Slice(B("int")), false, false)
	add(leaf, true, false)
	add(Slice(B("uint8")), false, false) // []byte elements: the plugins have bytes.* shortcuts for this shape
	uv := NStruct("UEqV", F("A", B("int")), F("B", B("int")))
	uv.UserEqualVal = true
	add(uv, false, false) // a ==-comparable element type with its own Equal (ignores B): membership is by that method
	if tier != "quick" {
		add(B("float64"), true, true)
		add(B("uint8"), true, true)
		add(Named("NStr", B("string")), true, true)
		add(Array(2, B("int")), true, false)
		add(Ptr(B("int")), false, false)
		add(Slice(Ptr(leaf)), false, false)
	}
	return out
}

func (g *Gen) elemEq(e ElemInst, a, b string) string {
	return fmt.Sprintf("%s(%s, %s)", g.RefEq(e.E), a, b)
}

// same: identity for pointers, structural otherwise ("is the same element")
func (g *Gen) elemSame(e ElemInst, a, b string) string {
	if e.E.K == "ptr" {
		return fmt.Sprintf("(%s == %s)", a, b)
	}
	return g.elemEq(e, a, b)
}

// ----- C13: Sort, Keys, Min, Max -----

func genC13(g *Gen, in Inst, tier string) []HarnessSrc { return nil }

func genC13Elem(g *Gen, e ElemInst, tier string) []HarnessSrc {
	E := e.E
	g.declare(E)
	LT := Slice(E)
	g.RefEq(E)
	var out []HarnessSrc
	id := e.ID
	le := func(a, b string) string {
		if e.Basic {
			return fmt.Sprintf("(%s <= %s)", a, b)
		}
		return fmt.Sprintf("(deriveCompare%s(%s, %s) <= 0)", id, a, b)
	}
	// Sort
	out = append(out, h("VX_C13_sort_"+id, "sort", fmt.Sprintf(
		"\tx := %s\n\tsnap := append(%s(nil), x...)\n\tout := deriveSort%s(x)\n"+
			"\tsorted := true\n\tfor i := 0; i+1 < len(out); i++ {\n\t\tif !%s {\n\t\t\tsorted = false\n\t\t}\n\t}\n"+
			"\tvx.Assert(sorted, \"output non-decreasing\")\n"+
			"\tperm := len(out) == len(snap)\n\tfor i := 0; i < len(snap); i++ {\n\t\tcs, co := 0, 0\n\t\tfor j := 0; j < len(snap); j++ {\n\t\t\tif %s {\n\t\t\t\tcs++\n\t\t\t}\n\t\t}\n"+
			"\t\tfor j := 0; j < len(out); j++ {\n\t\t\tif %s {\n\t\t\t\tco++\n\t\t\t}\n\t\t}\n\t\tif cs != co {\n\t\t\tperm = false\n\t\t}\n\t}\n"+
			"\tvx.Assert(perm, \"output is a permutation of the input\")\n",
		nd(LT, "x"), LT.Expr(), id, le("out[i]", "out[i+1]"), g.elemSame(e, "snap[j]", "snap[i]"), g.elemSame(e, "out[j]", "snap[i]"))))
	// Min / Max over a list
	for _, mm := range []string{"Min", "Max"} {
		ok := le("r", "x[i]")
		if mm == "Max" {
			ok = le("x[i]", "r")
		}
		out = append(out, h("VX_C13_"+strings.ToLower(mm)+"_"+id, "minmax", fmt.Sprintf(
			"\tx := %s\n\tdef := %s\n\tr := derive%s%s(x, def)\n"+
				"\tif len(x) == 0 {\n\t\tvx.Assert(%s, \"default for empty list\")\n\t\treturn\n\t}\n"+
				"\tisElem, best := false, true\n\tfor i := 0; i < len(x); i++ {\n\t\tif %s {\n\t\t\tisElem = true\n\t\t}\n\t\tif !%s {\n\t\t\tbest = false\n\t\t}\n\t}\n"+
				"\tvx.Assert(isElem, \"result is an element of the list\")\n\tvx.Assert(best, \"no element precedes/follows the result\")\n",
			nd(LT, "x"), nd(E, "def"), mm, id, g.elemSame(e, "r", "def"), g.elemSame(e, "r", "x[i]"), ok)))
		// two-value form
		ok2 := fmt.Sprintf("%s && %s", le("r", "a"), le("r", "b"))
		if mm == "Max" {
			ok2 = fmt.Sprintf("%s && %s", le("a", "r"), le("b", "r"))
		}
		if e.Basic {
			out = append(out, h("VX_C13_"+strings.ToLower(mm)+"2_"+id, "minmax2", fmt.Sprintf(
				"\ta := %s\n\tb := %s\n\tr := derive%s2%s(a, b)\n\tvx.Assert((%s || %s) && %s, \"two-value form returns the proper argument\")\n",
				nd(E, "a"), nd(E, "b"), mm, id, g.elemSame(e, "r", "a"), g.elemSame(e, "r", "b"), ok2)))
		}
	}
	// Keys (element type used as key when comparable; value int)
	if e.Comparable && E.K != "ptr" {
		MT := Map(E, B("int"))
		out = append(out, h("VX_C13_keys_"+id, "keys", fmt.Sprintf(
			"\tm := %s\n\tkeys := deriveKeys%s(m)\n\tvx.Assert(len(keys) == len(m), \"one key per entry\")\n"+
				"\tok := true\n\tfor i := 0; i < len(keys); i++ {\n\t\tif _, has := m[keys[i]]; !has {\n\t\t\tok = false\n\t\t}\n\t\tfor j := i + 1; j < len(keys); j++ {\n\t\t\tif keys[i] == keys[j] {\n\t\t\t\tok = false\n\t\t\t}\n\t\t}\n\t}\n"+
				"\tvx.Assert(ok, \"every key of the map exactly once\")\n",
			nd(MT, "m"), id)))
	}
	return out
}

// ----- C14: Contains, Unique, Set, Union, Intersect, Filter, TakeWhile, All, Any -----

func genC14Elem(g *Gen, e ElemInst, tier string) []HarnessSrc {
	E := e.E
	g.declare(E)
	LT := Slice(E)
	id := e.ID
	var out []HarnessSrc
	// the notion of Equal used by the helpers: == for comparable element types, derived Equal otherwise
	eq := func(a, b string) string {
		if e.Comparable {
			return fmt.Sprintf("(%s == %s)", a, b)
		}
		return fmt.Sprintf("deriveEqual%s(%s, %s)", id, a, b)
	}
	containsFn := fmt.Sprintf("func(l %s, it %s) bool {\n\t\tfor i := 0; i < len(l); i++ {\n\t\t\tif %s {\n\t\t\t\treturn true\n\t\t\t}\n\t\t}\n\t\treturn false\n\t}", LT.Expr(), E.Expr(), eq("l[i]", "it"))
	out = append(out, h("VX_C14_contains_"+id, "contains", fmt.Sprintf(
		"\tx := %s\n\tit := %s\n\tref := %s\n\tvx.Assert(deriveContains%s(x, it) == ref(x, it), \"Contains iff some element is Equal\")\n",
		nd(LT, "x"), nd(E, "it"), containsFn, id)))
	// Unique
	uqOpt := ""
	uq := fmt.Sprintf("\tx := %s\n\tsnap := append(%s(nil), x...)\n\tcontains := %s\n\tout := deriveUnique%s(x)\n"+
		"\tdistinct := true\n\tfor i := 0; i < len(out); i++ {\n\t\tfor j := i + 1; j < len(out); j++ {\n\t\t\tif %s {\n\t\t\t\tdistinct = false\n\t\t\t}\n\t\t}\n\t}\n"+
		"\tvx.Assert(distinct, \"pairwise non-Equal\")\n"+
		"\tcovers, sound := true, true\n\tfor i := 0; i < len(snap); i++ {\n\t\tif !contains(out, snap[i]) {\n\t\t\tcovers = false\n\t\t}\n\t}\n"+
		"\tfor i := 0; i < len(out); i++ {\n\t\tif !contains(snap, out[i]) {\n\t\t\tsound = false\n\t\t}\n\t}\n"+
		"\tvx.Assert(covers, \"covers every input element\")\n\tvx.Assert(sound, \"only input elements\")\n",
		ndo(LT, "x", uqOpt), LT.Expr(), containsFn, id, eq("out[i]", "out[j]"))
	if !e.Comparable {
		uq += fmt.Sprintf("\tvar exp %s\n\tfor i := 0; i < len(snap); i++ {\n\t\tif !contains(exp, snap[i]) {\n\t\t\texp = append(exp, snap[i])\n\t\t}\n\t}\n"+
			"\tfirst := len(out) == len(exp)\n\tfor i := 0; i < len(out) && i < len(exp); i++ {\n\t\tif !%s {\n\t\t\tfirst = false\n\t\t}\n\t}\n\tvx.Assert(first, \"first occurrences in order\")\n",
			LT.Expr(), g.elemSame(e, "out[i]", "exp[i]"))
	}
	if E.K == "named" && E.UserEqualVal {
		// known finding F32: Unique over a ==-comparable element type goes through a map (deriveKeys(deriveSet(list))),
		// i.e. is unique by ==, not by the element type's own Equal. There is no carved twin: the whole harness is the region.
		kf := h("VX_C14_unique_"+id+"__KF_F32", "unique", uq)
		kf.KF = "F32"
		out = append(out, kf)
	} else {
		out = append(out, h("VX_C14_unique_"+id, "unique", uq))
	}
	if E.K == "ptr" && E.Elem.K == "named" && E.Elem.Name == "Leaf" {
		// longer lists over a three-value element domain: reaches the states of the in-place compaction
		// where an earlier duplicate has been dropped and a kept element's original slot overwritten
		long := fmt.Sprintf("\tx := vx.NondetOpt[%s](\"x\", \"len=5,cap=0,str=0,depth=1\")\n\tfor i := 0; i < len(x); i++ {\n\t\tvx.Assume(x[i] != nil && x[i].I >= 0 && x[i].I <= 2)\n\t}\n"+
			"\tsnap := append(%s(nil), x...)\n\tout := deriveUnique%s(x)\n\tvar exp %s\n\tfor i := 0; i < len(snap); i++ {\n\t\tseen := false\n\t\tfor j := 0; j < len(exp); j++ {\n\t\t\tif exp[j].I == snap[i].I {\n\t\t\t\tseen = true\n\t\t\t}\n\t\t}\n\t\tif !seen {\n\t\t\texp = append(exp, snap[i])\n\t\t}\n\t}\n"+
			"\tok := len(out) == len(exp)\n\tfor i := 0; i < len(out) && i < len(exp); i++ {\n\t\tif out[i] != exp[i] {\n\t\t\tok = false\n\t\t}\n\t}\n\tvx.Assert(ok, \"Unique keeps exactly the first occurrences, in order (lists up to 5 over 3 values)\")\n",
			LT.Expr(), LT.Expr(), id, LT.Expr())
		out = append(out, h("VX_C14_uniquelong_"+id, "uniquelong", long))
	}
	// Set (comparable elements only)
	if e.Comparable && E.K != "ptr" {
		out = append(out, h("VX_C14_set_"+id, "set", fmt.Sprintf(
			"\tx := %s\n\ts := deriveSet%s(x)\n\tok := true\n\tfor i := 0; i < len(x); i++ {\n\t\tif _, has := s[x[i]]; !has {\n\t\t\tok = false\n\t\t}\n\t}\n"+
				"\tfor k := range s {\n\t\tfound := false\n\t\tfor i := 0; i < len(x); i++ {\n\t\t\tif x[i] == k {\n\t\t\t\tfound = true\n\t\t\t}\n\t\t}\n\t\tif !found {\n\t\t\tok = false\n\t\t}\n\t}\n\tvx.Assert(ok, \"Set has exactly the list's elements\")\n",
			nd(LT, "x"), id)))
		ST := Map(E, Struct())
		out = append(out, h("VX_C14_unionset_"+id, "unionset", fmt.Sprintf(
			"\ta := %s\n\tb := %s\n\tvx.Assume(a != nil)\n\tasnap := map[%s]struct{}{}\n\tfor k := range a {\n\t\tasnap[k] = struct{}{}\n\t}\n\tu := deriveUnionSet%s(a, b)\n\tok := true\n"+
				"\tfor k := range asnap {\n\t\tif _, has := u[k]; !has {\n\t\t\tok = false\n\t\t}\n\t}\n\tfor k := range b {\n\t\tif _, has := u[k]; !has {\n\t\t\tok = false\n\t\t}\n\t}\n"+
				"\tfor k := range u {\n\t\t_, ina := asnap[k]\n\t\t_, inb := b[k]\n\t\tif !ina && !inb {\n\t\t\tok = false\n\t\t}\n\t}\n\tvx.Assert(ok, \"set union\")\n",
			nd(ST, "a"), nd(ST, "b"), E.Expr(), id)))
		out = append(out, h("VX_C14_intersectset_"+id, "intersectset", fmt.Sprintf(
			"\ta := %s\n\tb := %s\n\tu := deriveIntersectSet%s(a, b)\n\tok := true\n"+
				"\tfor k := range a {\n\t\t_, inb := b[k]\n\t\t_, inu := u[k]\n\t\tif inb != inu {\n\t\t\tok = false\n\t\t}\n\t}\n"+
				"\tfor k := range u {\n\t\t_, ina := a[k]\n\t\t_, inb := b[k]\n\t\tif !ina || !inb {\n\t\t\tok = false\n\t\t}\n\t}\n\tvx.Assert(ok, \"set intersection\")\n",
			nd(ST, "a"), nd(ST, "b"), id)))
	}
	// Union of lists
	out = append(out, h("VX_C14_union_"+id, "union", fmt.Sprintf(
		"\ta := %s\n\tb := %s\n\tcontains := %s\n\tasnap := append(%s(nil), a...)\n\tu := deriveUnion%s(a, b)\n"+
			"\tprefix := len(u) >= len(asnap)\n\tfor i := 0; i < len(asnap) && i < len(u); i++ {\n\t\tif !%s {\n\t\t\tprefix = false\n\t\t}\n\t}\n\tvx.Assert(prefix, \"first list is a prefix of the union\")\n"+
			"\tall := true\n\tfor i := 0; i < len(b); i++ {\n\t\tif !contains(u, b[i]) {\n\t\t\tall = false\n\t\t}\n\t}\n\tvx.Assert(all, \"every element of the second list is in the union\")\n"+
			"\tnewOK := true\n\tfor i := len(asnap); i < len(u); i++ {\n\t\tif !contains(b, u[i]) || contains(asnap, u[i]) {\n\t\t\tnewOK = false\n\t\t}\n\t\tfor j := i + 1; j < len(u); j++ {\n\t\t\tif %s {\n\t\t\t\tnewOK = false\n\t\t\t}\n\t\t}\n\t}\n"+
			"\tvx.Assert(newOK, \"appended items are new, from the second list, and not repeated\")\n",
		nd(LT, "a"), nd(LT, "b"), containsFn, LT.Expr(), id, g.elemSame(e, "u[i]", "asnap[i]"), eq("u[i]", "u[j]"))))
	// Intersect of lists
	out = append(out, h("VX_C14_intersect_"+id, "intersect", fmt.Sprintf(
		"\ta := %s\n\tb := %s\n\tcontains := %s\n\tu := deriveIntersect%s(a, b)\n\tok := len(u) <= len(a)\n"+
			"\tfor i := 0; i < len(u); i++ {\n\t\tif !contains(a, u[i]) || !contains(b, u[i]) {\n\t\t\tok = false\n\t\t}\n\t}\n"+
			"\tfor i := 0; i < len(a); i++ {\n\t\tif contains(b, a[i]) && !contains(u, a[i]) {\n\t\t\tok = false\n\t\t}\n\t}\n\tvx.Assert(ok, \"list intersection\")\n",
		nd(LT, "a"), nd(LT, "b"), containsFn, id)))
	// order and multiplicity (a longer first list without duplicates against a shorter second list with any):
	// the intersection is exactly the elements of the first list that occur in the second, in the first list's order
	if e.Basic {
		out = append(out, h("VX_C14_intersectlong_"+id, "intersectlong", fmt.Sprintf(
			"\ta := %s\n\tb := %s\n\tfor i := 0; i < len(a); i++ {\n\t\tfor j := 0; j < i; j++ {\n\t\t\tvx.Assume(a[i] != a[j])\n\t\t}\n\t}\n"+
				"\tsnap := append(%s(nil), a...)\n\tu := deriveIntersect%s(a, b)\n\tvar exp %s\n\tfor i := 0; i < len(snap); i++ {\n\t\tin := false\n\t\tfor j := 0; j < len(b); j++ {\n\t\t\tif b[j] == snap[i] {\n\t\t\t\tin = true\n\t\t\t}\n\t\t}\n\t\tif in {\n\t\t\texp = append(exp, snap[i])\n\t\t}\n\t}\n"+
				"\tok := len(u) == len(exp)\n\tfor i := 0; i < len(u) && i < len(exp); i++ {\n\t\tif u[i] != exp[i] {\n\t\t\tok = false\n\t\t}\n\t}\n\tvx.Assert(ok, \"Intersect keeps exactly the common elements, in the first list's order, once each\")\n",
			ndo(LT, "a", "len=3,cap=0,str=1"), ndo(LT, "b", "len=2,cap=0,str=1"), LT.Expr(), id, LT.Expr())))
	}
	// predicate helpers with a call log
	pre := fmt.Sprintf("\tx := %s\n\tsnap := append(%s(nil), x...)\n\tvar log %s\n\tvar ans []bool\n"+
		"\tpred := func(e %s) bool {\n\t\tr := vx.Nondet[bool](\"pred\")\n\t\tlog = append(log, e)\n\t\tans = append(ans, r)\n\t\treturn r\n\t}\n",
		nd(LT, "x"), LT.Expr(), LT.Expr(), E.Expr())
	same := func(a, b string) string { return g.elemSame(e, a, b) }
	out = append(out, h("VX_C14_filter_"+id, "filter", pre+fmt.Sprintf(
		"\tout := deriveFilter%s(pred, x)\n\tlogOK := len(log) == len(snap)\n\tfor i := 0; i < len(log) && i < len(snap); i++ {\n\t\tif !%s {\n\t\t\tlogOK = false\n\t\t}\n\t}\n\tvx.Assert(logOK, \"predicate called once per element in order\")\n"+
			"\tvar exp %s\n\tfor i := 0; i < len(snap) && i < len(ans); i++ {\n\t\tif ans[i] {\n\t\t\texp = append(exp, snap[i])\n\t\t}\n\t}\n"+
			"\tok := len(out) == len(exp)\n\tfor i := 0; i < len(out) && i < len(exp); i++ {\n\t\tif !%s {\n\t\t\tok = false\n\t\t}\n\t}\n\tvx.Assert(ok, \"Filter keeps exactly the accepted elements in order\")\n",
		id, same("log[i]", "snap[i]"), LT.Expr(), same("out[i]", "exp[i]"))))
	out = append(out, h("VX_C14_takewhile_"+id, "takewhile", pre+fmt.Sprintf(
		"\tout := deriveTakeWhile%s(pred, x)\n\tn := 0\n\tfor n < len(ans) && ans[n] {\n\t\tn++\n\t}\n"+
			"\twant := n\n\tif n < len(snap) {\n\t\twant = n + 1\n\t}\n\tlogOK := len(log) == want\n\tfor i := 0; i < len(log) && i < len(snap); i++ {\n\t\tif !%s {\n\t\t\tlogOK = false\n\t\t}\n\t}\n\tvx.Assert(logOK, \"predicate called in order, stopping at the first rejection\")\n"+
			"\tok := len(out) == n\n\tfor i := 0; i < len(out) && i < len(snap); i++ {\n\t\tif !%s {\n\t\t\tok = false\n\t\t}\n\t}\n\tvx.Assert(ok, \"TakeWhile returns the accepted prefix\")\n",
		id, same("log[i]", "snap[i]"), same("out[i]", "snap[i]"))))
	out = append(out, h("VX_C14_all_"+id, "all", pre+fmt.Sprintf(
		"\tr := deriveAll%s(pred, x)\n\tn := 0\n\tfor n < len(ans) && ans[n] {\n\t\tn++\n\t}\n\twant := n\n\tif n < len(snap) {\n\t\twant = n + 1\n\t}\n"+
			"\tlogOK := len(log) == want\n\tfor i := 0; i < len(log) && i < len(snap); i++ {\n\t\tif !%s {\n\t\t\tlogOK = false\n\t\t}\n\t}\n\tvx.Assert(logOK, \"predicate called in order until the first false\")\n\tvx.Assert(r == (n == len(snap)), \"All is the conjunction\")\n",
		id, same("log[i]", "snap[i]"))))
	out = append(out, h("VX_C14_any_"+id, "any", pre+fmt.Sprintf(
		"\tr := deriveAny%s(pred, x)\n\tn := 0\n\tfor n < len(ans) && !ans[n] {\n\t\tn++\n\t}\n\twant := n\n\tif n < len(snap) {\n\t\twant = n + 1\n\t}\n"+
			"\tlogOK := len(log) == want\n\tfor i := 0; i < len(log) && i < len(snap); i++ {\n\t\tif !%s {\n\t\t\tlogOK = false\n\t\t}\n\t}\n\tvx.Assert(logOK, \"predicate called in order until the first true\")\n\tvx.Assert(r == (n < len(snap)), \"Any is the disjunction\")\n",
		id, same("log[i]", "snap[i]"))))
	return out
}
