package main

import (
	"encoding/json"
	"fmt"
	"os"
	"path/filepath"
)

// cmdReplay re-runs a stored counterexample against the CURRENT /repo: the fixture sources saved with the
// replay are copied into a fresh scratch copy, goderive is rebuilt and re-run on them, and the harness is
// executed natively with the stored model. Exit 1 if the failure reproduces, 0 if it does not.
func cmdReplay(args []string) int {
	if len(args) != 1 {
		fmt.Fprintln(os.Stderr, "usage: vcheck replay <replay directory>")
		return 2
	}
	dir := args[0]
	var meta map[string]string
	data, err := os.ReadFile(filepath.Join(dir, "meta.json"))
	if err != nil {
		fmt.Println("cannot read", dir, err)
		return 2
	}
	json.Unmarshal(data, &meta)
	var m Model
	if md, err := os.ReadFile(filepath.Join(dir, "model.json")); err == nil {
		json.Unmarshal(md, &m)
	}
	s, err := NewScratch()
	if err != nil {
		fmt.Println(err)
		return 3
	}
	defer s.Close()
	rel := meta["rel"]
	dst := filepath.Join(s.Repo, rel)
	os.MkdirAll(dst, 0o755)
	ents, _ := os.ReadDir(filepath.Join(dir, "pkg"))
	for _, e := range ents {
		if e.Name() == "derived.gen.go" && rel != "derive" && rel != "." {
			continue // regenerated below from the current tree
		}
		b, _ := os.ReadFile(filepath.Join(dir, "pkg", e.Name()))
		os.WriteFile(filepath.Join(dst, e.Name()), b, 0o644)
	}
	fmt.Printf("replaying %s (%s) on %s\n", meta["harness"], meta["detail"], rel)
	if rel != "derive" && rel != "." {
		fp := &FixPkg{Rel: rel}
		s.runGoderive(fp)
		if !fp.GenOK {
			fmt.Printf("REPRODUCED: goderive fails on the fixture: %s\n", trunc(fp.GenOut, 400))
			return 1
		}
		if errs := typeCheck(s.Repo, []string{"./" + rel}, goEnv()); len(errs) > 0 {
			for _, e := range errs {
				fmt.Printf("REPRODUCED: the generated package does not type-check: %s\n", trunc(e, 400))
			}
			return 1
		}
	}
	if len(m.Nondets) == 0 && m.Harness != "" && len(m.Harness) > 3 && m.Harness[:3] != "VX_" {
		fmt.Println("NOT REPRODUCED: the fixture now generates and type-checks (front-end finding)")
		return 0
	}
	out := s.replayModel(rel, &m)
	fmt.Println("native outcome:", out)
	if len(out) >= 6 && (out[:6] == "assert" || out[:5] == "panic") {
		fmt.Println("REPRODUCED")
		return 1
	}
	fmt.Println("NOT REPRODUCED")
	return 0
}
