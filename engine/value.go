package main

import (
	"fmt"
	"go/types"

	"golang.org/x/tools/go/ssa"
)

// Symbolic Go values. All are pointer types so that identity comparison is a cheap
// "definitely the same" test used to short-circuit merges.

type Value interface{}

type VBV struct{ T *Term }        // bool (W==0), integers, floats (as IEEE bit pattern)
type VCplx struct{ Re, Im *Term } // complex as two float bit patterns
type StrAlt struct {
	G *Term
	S string
}
type VStr struct {
	Len  *Term    // BV64
	B    []*Term  // BV8, len(B) = static maximum length
	Alts []StrAlt // optional: the string is exactly one of these constants (guards exclusive); nil = unknown
}
type PtrAlt struct {
	G    *Term
	Obj  *Object
	Path []int
}
type VPtr struct {
	Alts []PtrAlt // nil iff no guard holds; guards are mutually exclusive
	Safe bool     // known non-nil on every path that uses it (result of a checked IndexAddr/FieldAddr/Alloc)
}
type SliceAlt struct {
	G             *Term
	Obj           *Object // backing array object (content *VArr)
	Off, Len, Cap *Term   // BV64
}
type VSlice struct{ Alts []SliceAlt }
type MapAlt struct {
	G   *Term
	Obj *Object // content *VMapC
}
type VMap struct{ Alts []MapAlt }
type VStruct struct{ F []Value }

// VRefl models the reflect.Value of the access path goderive emits for unexported fields of imported
// structs: reflect.Indirect(reflect.ValueOf(p)).FieldByName("x").UnsafeAddr(). IsPtr: the Value holds the
// pointer P itself (result of ValueOf); otherwise P is the address of the storage the Value refers to and T
// that storage's type. A Value without alternatives in P is the zero Value.
type VRefl struct {
	IsPtr bool
	P     *VPtr
	T     types.Type
}
type VArr struct{ E []Value }
type VTuple struct{ E []Value }
type FuncAlt struct {
	G    *Term
	Fn   *ssa.Function
	Bind []Value
	Recv Value // bound method receiver (nil if none)
}
type VFunc struct{ Alts []FuncAlt }
type IfaceAlt struct {
	G *Term
	T types.Type
	V Value
}
type VIface struct{ Alts []IfaceAlt }
type MapSlot struct {
	P    *Term
	K, V Value
}
type VMapC struct{ Slots []MapSlot } // heap content of a map object
type IterAlt struct {
	G   *Term
	Obj *Object
}
type VIter struct{ Alts []IterAlt } // iterator handle(s); heap content *VIterC
type VIterC struct {
	Kind  int // 0 string, 1 map
	Str   *VStr
	Pos   *Term // string: byte position; map: number of Next calls so far
	Slots []MapSlot
	Ord   [][]*Term // Ord[a][b]: slot a is visited before slot b
	KT    types.Type
	VT    types.Type
}
type ChanAlt struct {
	G   *Term
	Obj *Object
}
type VChan struct{ Alts []ChanAlt }

// VNative is a guarded union of concrete native Go values (mode B).
type NatAlt struct {
	G *Term
	V interface{}
}
type VNative struct{ Alts []NatAlt }

type Object struct {
	Global *ssa.Global
	ID     int
	Typ    types.Type // type of content
	Name   string
	N      int // number of slots for array objects
}

func (o *Object) String() string { return fmt.Sprintf("obj%d(%s)", o.ID, o.Name) }

type Heap map[*Object]Value

func samePath(a, b []int) bool {
	if len(a) != len(b) {
		return false
	}
	for i := range a {
		if a[i] != b[i] {
			return false
		}
	}
	return true
}

func (ex *Exec) intW(t types.Type) (w int, signed bool) {
	b, ok := t.Underlying().(*types.Basic)
	if !ok {
		panic(unsupported("intW of " + t.String()))
	}
	switch b.Kind() {
	case types.Bool, types.UntypedBool:
		return 0, false
	case types.Int, types.Int64, types.UntypedInt:
		return 64, true
	case types.Int8:
		return 8, true
	case types.Int16:
		return 16, true
	case types.Int32, types.UntypedRune:
		return 32, true
	case types.Uint, types.Uint64, types.Uintptr:
		return 64, false
	case types.Uint8:
		return 8, false
	case types.Uint16:
		return 16, false
	case types.Uint32:
		return 32, false
	case types.Float32:
		return 32, false
	case types.Float64, types.UntypedFloat:
		return 64, false
	}
	panic(unsupported("intW of " + t.String()))
}

func isFloat(t types.Type) bool {
	b, ok := t.Underlying().(*types.Basic)
	return ok && b.Info()&types.IsFloat != 0
}
func isComplex(t types.Type) bool {
	b, ok := t.Underlying().(*types.Basic)
	return ok && b.Info()&types.IsComplex != 0
}
func isString(t types.Type) bool {
	b, ok := t.Underlying().(*types.Basic)
	return ok && b.Info()&types.IsString != 0
}
func isBool(t types.Type) bool {
	b, ok := t.Underlying().(*types.Basic)
	return ok && b.Info()&types.IsBoolean != 0
}
func isInteger(t types.Type) bool {
	b, ok := t.Underlying().(*types.Basic)
	return ok && b.Info()&types.IsInteger != 0
}

type unsupportedErr struct{ msg string }

func (u unsupportedErr) Error() string { return "unsupported: " + u.msg }
func unsupported(msg string) error     { return unsupportedErr{msg} }

func (ex *Exec) zero(t types.Type) Value {
	ts := ex.ts
	switch u := t.Underlying().(type) {
	case *types.Basic:
		switch {
		case u.Kind() == types.UnsafePointer:
			return &VPtr{}
		case u.Info()&types.IsString != 0:
			return &VStr{Len: ts.BV(0, 64)}
		case u.Info()&types.IsComplex != 0:
			w := 64
			if u.Kind() == types.Complex64 {
				w = 32
			}
			return &VCplx{ts.BV(0, w), ts.BV(0, w)}
		case u.Kind() == types.UntypedNil:
			return &VPtr{}
		default:
			w, _ := ex.intW(t)
			return &VBV{ts.BV(0, w)}
		}
	case *types.Pointer:
		return &VPtr{}
	case *types.Slice:
		return &VSlice{}
	case *types.Map:
		return &VMap{}
	case *types.Chan:
		return &VChan{}
	case *types.Signature:
		return &VFunc{}
	case *types.Interface:
		return &VIface{}
	case *types.Struct:
		f := make([]Value, u.NumFields())
		for i := range f {
			f[i] = ex.zero(u.Field(i).Type())
		}
		return &VStruct{f}
	case *types.Array:
		e := make([]Value, int(u.Len()))
		for i := range e {
			e[i] = ex.zero(u.Elem())
		}
		return &VArr{e}
	case *types.Tuple:
		e := make([]Value, u.Len())
		for i := range e {
			e[i] = ex.zero(u.At(i).Type())
		}
		return &VTuple{e}
	}
	panic(unsupported("zero of " + t.String()))
}

// merge returns ite(c, a, b) on structured values.
func (ex *Exec) merge(c *Term, a, b Value) Value {
	ts := ex.ts
	if a == b || c.IsTrue() {
		return a
	}
	if c.IsFalse() {
		return b
	}
	if a == nil {
		return b
	}
	if b == nil {
		return a
	}
	nc := ts.Not(c)
	// nil pointers and nil natives are interchangeable
	if _, ok := a.(*VNative); ok {
		if p, ok := b.(*VPtr); ok && len(p.Alts) == 0 {
			b = &VNative{}
		}
	}
	if _, ok := b.(*VNative); ok {
		if p, ok := a.(*VPtr); ok && len(p.Alts) == 0 {
			a = &VNative{}
		}
	}
	switch x := a.(type) {
	case *VRefl:
		y := b.(*VRefl)
		if x.IsPtr != y.IsPtr || !types.Identical(x.T, y.T) {
			panic(unsupported("merge of reflect.Values of different shape"))
		}
		return &VRefl{IsPtr: x.IsPtr, P: ex.merge(c, x.P, y.P).(*VPtr), T: x.T}
	case *VBV:
		y := b.(*VBV)
		if x.T == y.T {
			return a
		}
		return &VBV{ts.Ite(c, x.T, y.T)}
	case *VCplx:
		y := b.(*VCplx)
		return &VCplx{ts.Ite(c, x.Re, y.Re), ts.Ite(c, x.Im, y.Im)}
	case *VStr:
		y := b.(*VStr)
		if x.Alts != nil && y.Alts != nil {
			var alts []StrAlt
			for _, al := range x.Alts {
				alts = append(alts, StrAlt{ts.And(c, al.G), al.S})
			}
			for _, al := range y.Alts {
				alts = append(alts, StrAlt{ts.And(nc, al.G), al.S})
			}
			return ex.strFromAlts(alts)
		}
		n := len(x.B)
		if len(y.B) > n {
			n = len(y.B)
		}
		out := &VStr{Len: ts.Ite(c, x.Len, y.Len), B: make([]*Term, n)}
		z := ts.BV(0, 8)
		for i := 0; i < n; i++ {
			p, q := z, z
			if i < len(x.B) {
				p = x.B[i]
			}
			if i < len(y.B) {
				q = y.B[i]
			}
			out.B[i] = ts.Ite(c, p, q)
		}
		return out
	case *VPtr:
		y := b.(*VPtr)
		out := &VPtr{Safe: x.Safe && y.Safe}
		for _, al := range x.Alts {
			g := ts.And(c, al.G)
			if !g.IsFalse() {
				out.Alts = append(out.Alts, PtrAlt{g, al.Obj, al.Path})
			}
		}
	L:
		for _, al := range y.Alts {
			g := ts.And(nc, al.G)
			if g.IsFalse() {
				continue
			}
			for i := range out.Alts {
				if out.Alts[i].Obj == al.Obj && samePath(out.Alts[i].Path, al.Path) {
					out.Alts[i].G = ts.Or(out.Alts[i].G, g)
					continue L
				}
			}
			out.Alts = append(out.Alts, PtrAlt{g, al.Obj, al.Path})
		}
		return out
	case *VSlice:
		y := b.(*VSlice)
		out := &VSlice{}
		for _, al := range x.Alts {
			g := ts.And(c, al.G)
			if !g.IsFalse() {
				out.Alts = append(out.Alts, SliceAlt{g, al.Obj, al.Off, al.Len, al.Cap})
			}
		}
	L2:
		for _, al := range y.Alts {
			g := ts.And(nc, al.G)
			if g.IsFalse() {
				continue
			}
			for i := range out.Alts {
				o := &out.Alts[i]
				if o.Obj == al.Obj {
					// guards are disjoint (o.G implies c, g implies !c)
					o.Off = ts.Ite(o.G, o.Off, al.Off)
					o.Len = ts.Ite(o.G, o.Len, al.Len)
					o.Cap = ts.Ite(o.G, o.Cap, al.Cap)
					o.G = ts.Or(o.G, g)
					continue L2
				}
			}
			out.Alts = append(out.Alts, SliceAlt{g, al.Obj, al.Off, al.Len, al.Cap})
		}
		return out
	case *VMap:
		y := b.(*VMap)
		out := &VMap{}
		for _, al := range x.Alts {
			g := ts.And(c, al.G)
			if !g.IsFalse() {
				out.Alts = append(out.Alts, MapAlt{g, al.Obj})
			}
		}
	L3:
		for _, al := range y.Alts {
			g := ts.And(nc, al.G)
			if g.IsFalse() {
				continue
			}
			for i := range out.Alts {
				if out.Alts[i].Obj == al.Obj {
					out.Alts[i].G = ts.Or(out.Alts[i].G, g)
					continue L3
				}
			}
			out.Alts = append(out.Alts, MapAlt{g, al.Obj})
		}
		return out
	case *VChan:
		y := b.(*VChan)
		out := &VChan{}
		for _, al := range x.Alts {
			g := ts.And(c, al.G)
			if !g.IsFalse() {
				out.Alts = append(out.Alts, ChanAlt{g, al.Obj})
			}
		}
	L4:
		for _, al := range y.Alts {
			g := ts.And(nc, al.G)
			if g.IsFalse() {
				continue
			}
			for i := range out.Alts {
				if out.Alts[i].Obj == al.Obj {
					out.Alts[i].G = ts.Or(out.Alts[i].G, g)
					continue L4
				}
			}
			out.Alts = append(out.Alts, ChanAlt{g, al.Obj})
		}
		return out
	case *VStruct:
		y := b.(*VStruct)
		f := make([]Value, len(x.F))
		same := true
		for i := range f {
			f[i] = ex.merge(c, x.F[i], y.F[i])
			if f[i] != x.F[i] {
				same = false
			}
		}
		if same {
			return a
		}
		return &VStruct{f}
	case *VArr:
		y := b.(*VArr)
		n := len(x.E)
		if len(y.E) != n {
			panic("merge arrays of different length")
		}
		e := make([]Value, n)
		same := true
		for i := range e {
			e[i] = ex.merge(c, x.E[i], y.E[i])
			if e[i] != x.E[i] {
				same = false
			}
		}
		if same {
			return a
		}
		return &VArr{e}
	case *VTuple:
		y := b.(*VTuple)
		e := make([]Value, len(x.E))
		for i := range e {
			e[i] = ex.merge(c, x.E[i], y.E[i])
		}
		return &VTuple{e}
	case *VFunc:
		y := b.(*VFunc)
		out := &VFunc{}
		for _, al := range x.Alts {
			g := ts.And(c, al.G)
			if !g.IsFalse() {
				out.Alts = append(out.Alts, FuncAlt{g, al.Fn, al.Bind, al.Recv})
			}
		}
		for _, al := range y.Alts {
			g := ts.And(nc, al.G)
			if !g.IsFalse() {
				out.Alts = append(out.Alts, FuncAlt{g, al.Fn, al.Bind, al.Recv})
			}
		}
		return out
	case *VIface:
		y := b.(*VIface)
		out := &VIface{}
		for _, al := range x.Alts {
			g := ts.And(c, al.G)
			if !g.IsFalse() {
				out.Alts = append(out.Alts, IfaceAlt{g, al.T, al.V})
			}
		}
	L5:
		for _, al := range y.Alts {
			g := ts.And(nc, al.G)
			if g.IsFalse() {
				continue
			}
			for i := range out.Alts {
				o := &out.Alts[i]
				if types.Identical(o.T, al.T) {
					o.V = ex.merge(o.G, o.V, al.V)
					o.G = ts.Or(o.G, g)
					continue L5
				}
			}
			out.Alts = append(out.Alts, IfaceAlt{g, al.T, al.V})
		}
		return out
	case *VMapC:
		y := b.(*VMapC)
		// pad to common length: slots are positional
		n := len(x.Slots)
		if len(y.Slots) > n {
			n = len(y.Slots)
		}
		out := &VMapC{Slots: make([]MapSlot, n)}
		for i := 0; i < n; i++ {
			switch {
			case i < len(x.Slots) && i < len(y.Slots):
				sx, sy := x.Slots[i], y.Slots[i]
				out.Slots[i] = MapSlot{ts.Ite(c, sx.P, sy.P), ex.merge(c, sx.K, sy.K), ex.merge(c, sx.V, sy.V)}
			case i < len(x.Slots):
				sx := x.Slots[i]
				out.Slots[i] = MapSlot{ts.And(c, sx.P), sx.K, sx.V}
			default:
				sy := y.Slots[i]
				out.Slots[i] = MapSlot{ts.And(nc, sy.P), sy.K, sy.V}
			}
		}
		return out
	case *VIter:
		y := b.(*VIter)
		out := &VIter{}
		for _, al := range x.Alts {
			g := ts.And(c, al.G)
			if !g.IsFalse() {
				out.Alts = append(out.Alts, IterAlt{g, al.Obj})
			}
		}
	LI:
		for _, al := range y.Alts {
			g := ts.And(nc, al.G)
			if g.IsFalse() {
				continue
			}
			for i := range out.Alts {
				if out.Alts[i].Obj == al.Obj {
					out.Alts[i].G = ts.Or(out.Alts[i].G, g)
					continue LI
				}
			}
			out.Alts = append(out.Alts, IterAlt{g, al.Obj})
		}
		return out
	case *VIterC:
		y := b.(*VIterC)
		if x.Kind != y.Kind || len(x.Slots) != len(y.Slots) {
			panic(unsupported("merge of distinct iterator states"))
		}
		o := *x
		o.Pos = ts.Ite(c, x.Pos, y.Pos)
		return &o
	case *VNative:
		y := b.(*VNative)
		out := &VNative{}
		for _, al := range x.Alts {
			g := ts.And(c, al.G)
			if !g.IsFalse() {
				out.Alts = append(out.Alts, NatAlt{g, al.V})
			}
		}
	L6:
		for _, al := range y.Alts {
			g := ts.And(nc, al.G)
			if g.IsFalse() {
				continue
			}
			for i := range out.Alts {
				if natSame(out.Alts[i].V, al.V) {
					out.Alts[i].G = ts.Or(out.Alts[i].G, g)
					continue L6
				}
			}
			out.Alts = append(out.Alts, NatAlt{g, al.V})
		}
		return out
	}
	panic(unsupported(fmt.Sprintf("merge of %T", a)))
}

func natSame(a, b interface{}) (r bool) {
	defer func() {
		if recover() != nil {
			r = false
		}
	}()
	return a == b
}

// navigate returns the sub-value of content at path.
func navigate(content Value, path []int) Value {
	for _, i := range path {
		switch c := content.(type) {
		case *VStruct:
			content = c.F[i]
		case *VArr:
			content = c.E[i]
		default:
			panic(fmt.Sprintf("navigate into %T", content))
		}
	}
	return content
}

// update returns content with the sub-value at path replaced by f(old).
func update(content Value, path []int, f func(old Value) Value) Value {
	if len(path) == 0 {
		return f(content)
	}
	i := path[0]
	switch c := content.(type) {
	case *VStruct:
		nf := make([]Value, len(c.F))
		copy(nf, c.F)
		nf[i] = update(c.F[i], path[1:], f)
		return &VStruct{nf}
	case *VArr:
		ne := make([]Value, len(c.E))
		copy(ne, c.E)
		ne[i] = update(c.E[i], path[1:], f)
		return &VArr{ne}
	}
	panic(fmt.Sprintf("update into %T", content))
}

func (ex *Exec) ptrNonNil(p *VPtr) *Term {
	gs := make([]*Term, len(p.Alts))
	for i, a := range p.Alts {
		gs[i] = a.G
	}
	return ex.ts.Or(gs...)
}
func (ex *Exec) sliceNonNil(p *VSlice) *Term {
	gs := make([]*Term, len(p.Alts))
	for i, a := range p.Alts {
		gs[i] = a.G
	}
	return ex.ts.Or(gs...)
}
func (ex *Exec) mapNonNil(p *VMap) *Term {
	gs := make([]*Term, len(p.Alts))
	for i, a := range p.Alts {
		gs[i] = a.G
	}
	return ex.ts.Or(gs...)
}
func (ex *Exec) ifaceNonNil(p *VIface) *Term {
	gs := make([]*Term, len(p.Alts))
	for i, a := range p.Alts {
		gs[i] = a.G
	}
	return ex.ts.Or(gs...)
}
func (ex *Exec) funcNonNil(p *VFunc) *Term {
	gs := make([]*Term, len(p.Alts))
	for i, a := range p.Alts {
		gs[i] = a.G
	}
	return ex.ts.Or(gs...)
}
func (ex *Exec) chanNonNil(p *VChan) *Term {
	gs := make([]*Term, len(p.Alts))
	for i, a := range p.Alts {
		gs[i] = a.G
	}
	return ex.ts.Or(gs...)
}

func (ex *Exec) sliceLen(s *VSlice) *Term {
	r := ex.ts.BV(0, 64)
	for i := len(s.Alts) - 1; i >= 0; i-- {
		r = ex.ts.Ite(s.Alts[i].G, s.Alts[i].Len, r)
	}
	return r
}
func (ex *Exec) sliceCap(s *VSlice) *Term {
	r := ex.ts.BV(0, 64)
	for i := len(s.Alts) - 1; i >= 0; i-- {
		r = ex.ts.Ite(s.Alts[i].G, s.Alts[i].Cap, r)
	}
	return r
}

// strEq: string equality.
func (ex *Exec) strEq(a, b *VStr) *Term {
	ts := ex.ts
	if a.Alts != nil && b.Alts != nil {
		var cs []*Term
		for _, p := range a.Alts {
			for _, q := range b.Alts {
				if p.S == q.S {
					cs = append(cs, ts.And(p.G, q.G))
				}
			}
		}
		return ts.Or(cs...)
	}
	n := len(a.B)
	if len(b.B) < n {
		n = len(b.B)
	}
	cs := []*Term{ts.Eq(a.Len, b.Len), ts.Ule(a.Len, ts.BV(uint64(n), 64))}
	for i := 0; i < n; i++ {
		cs = append(cs, ts.Or(ts.Ule(a.Len, ts.BV(uint64(i), 64)), ts.Eq(a.B[i], b.B[i])))
	}
	return ts.And(cs...)
}

// strLt: lexicographic byte-wise a < b.
func (ex *Exec) strLt(a, b *VStr) *Term {
	ts := ex.ts
	if a.Alts != nil && b.Alts != nil {
		var cs []*Term
		for _, p := range a.Alts {
			for _, q := range b.Alts {
				if p.S < q.S {
					cs = append(cs, ts.And(p.G, q.G))
				}
			}
		}
		return ts.Or(cs...)
	}
	n := len(a.B)
	if len(b.B) > n {
		n = len(b.B)
	}
	// lt_n: both exhausted up to static maxima => a shorter than b?
	lt := ts.Ult(a.Len, b.Len)
	for i := n - 1; i >= 0; i-- {
		ci := ts.BV(uint64(i), 64)
		aEnd := ts.Ule(a.Len, ci)
		bEnd := ts.Ule(b.Len, ci)
		var ab, bb *Term
		if i < len(a.B) {
			ab = a.B[i]
		} else {
			ab = ts.BV(0, 8)
		}
		if i < len(b.B) {
			bb = b.B[i]
		} else {
			bb = ts.BV(0, 8)
		}
		// if a ended: a<b iff b not ended ; else if b ended: false ; else if bytes differ: a_i<b_i ; else rest
		lt = ts.Ite(aEnd, ts.Not(bEnd),
			ts.Ite(bEnd, ts.False,
				ts.Ite(ts.Eq(ab, bb), lt, ts.Ult(ab, bb))))
	}
	return lt
}

func (ex *Exec) ptrEq(a, b *VPtr) *Term {
	ts := ex.ts
	cs := []*Term{ts.And(ts.Not(ex.ptrNonNil(a)), ts.Not(ex.ptrNonNil(b)))}
	for _, x := range a.Alts {
		for _, y := range b.Alts {
			if x.Obj == y.Obj && samePath(x.Path, y.Path) {
				cs = append(cs, ts.And(x.G, y.G))
			}
		}
	}
	return ts.Or(cs...)
}

func (ex *Exec) chanEq(a, b *VChan) *Term {
	ts := ex.ts
	cs := []*Term{ts.And(ts.Not(ex.chanNonNil(a)), ts.Not(ex.chanNonNil(b)))}
	for _, x := range a.Alts {
		for _, y := range b.Alts {
			if x.Obj == y.Obj {
				cs = append(cs, ts.And(x.G, y.G))
			}
		}
	}
	return ts.Or(cs...)
}

// valueEq implements Go's == for comparable types.
func (ex *Exec) valueEq(t types.Type, a, b Value) *Term {
	ts := ex.ts
	switch u := t.Underlying().(type) {
	case *types.Basic:
		switch {
		case u.Info()&types.IsString != 0:
			return ex.strEq(a.(*VStr), b.(*VStr))
		case u.Info()&types.IsFloat != 0:
			return ts.Fp(OFpEq, a.(*VBV).T, b.(*VBV).T)
		case u.Info()&types.IsComplex != 0:
			x, y := a.(*VCplx), b.(*VCplx)
			return ts.And(ts.Fp(OFpEq, x.Re, y.Re), ts.Fp(OFpEq, x.Im, y.Im))
		case u.Kind() == types.UnsafePointer:
			return ex.ptrEq(a.(*VPtr), b.(*VPtr))
		default:
			return ts.Eq(a.(*VBV).T, b.(*VBV).T)
		}
	case *types.Pointer:
		if _, ok := a.(*VNative); ok {
			return ex.nativeEq(a, b)
		}
		if _, ok := b.(*VNative); ok {
			return ex.nativeEq(a, b)
		}
		return ex.ptrEq(a.(*VPtr), b.(*VPtr))
	case *types.Chan:
		return ex.chanEq(a.(*VChan), b.(*VChan))
	case *types.Struct:
		x, y := a.(*VStruct), b.(*VStruct)
		var cs []*Term
		for i := 0; i < u.NumFields(); i++ {
			if u.Field(i).Name() == "_" {
				continue
			}
			cs = append(cs, ex.valueEq(u.Field(i).Type(), x.F[i], y.F[i]))
		}
		return ts.And(cs...)
	case *types.Array:
		x, y := a.(*VArr), b.(*VArr)
		var cs []*Term
		for i := range x.E {
			cs = append(cs, ex.valueEq(u.Elem(), x.E[i], y.E[i]))
		}
		return ts.And(cs...)
	case *types.Interface:
		x, y := a.(*VIface), b.(*VIface)
		cs := []*Term{ts.And(ts.Not(ex.ifaceNonNil(x)), ts.Not(ex.ifaceNonNil(y)))}
		for _, p := range x.Alts {
			for _, q := range y.Alts {
				if types.Identical(p.T, q.T) {
					if !types.Comparable(p.T) {
						ex.oblige(ts.And(p.G, q.G), "panic", "comparing uncomparable dynamic type "+p.T.String())
						continue
					}
					cs = append(cs, ts.And(p.G, q.G, ex.valueEq(p.T, p.V, q.V)))
				}
			}
		}
		return ts.Or(cs...)
	}
	panic(unsupported("valueEq on " + t.String()))
}
