package main

import "math"

func evalFp(op Op, w int, av []uint64) uint64 {
	f := func(b uint64) float64 {
		if w == 32 {
			return float64(math.Float32frombits(uint32(b)))
		}
		return math.Float64frombits(b)
	}
	b2u := func(b bool) uint64 {
		if b {
			return 1
		}
		return 0
	}
	switch op {
	case OFpEq:
		return b2u(f(av[0]) == f(av[1]))
	case OFpLt:
		return b2u(f(av[0]) < f(av[1]))
	case OFpLe:
		return b2u(f(av[0]) <= f(av[1]))
	case OFpIsNaN:
		x := f(av[0])
		return b2u(x != x)
	}
	return 0
}
