package main

// Havoc mode (C09 error-propagation lemma): one generator function of plugin/* is executed from its
// real SSA with an arbitrary receiver, arguments drawn from a universe of real go/types values, and
// EVERY call it makes into non-library code replaced by an arbitrary result (so any subset of its
// helpers fails). Obligation: if some helper returned a non-nil error on the executed path, the
// function itself returns a non-nil error.

import (
	"fmt"
	"go/token"
	"go/types"
	"reflect"
	"sort"
	"strings"

	"golang.org/x/tools/go/ssa"
)

type HavocEnv struct {
	Root     *ssa.Function
	ErrGs    []*Term  // pc-at-call && "this helper failed"
	ErrWhat  []string // callee names, parallel to ErrGs
	Universe []types.Type
	n        int
}

func havocUniverse() []types.Type {
	pkg := types.NewPackage("example.com/p", "p")
	mk := func(n string, u types.Type) *types.Named {
		return types.NewNamed(types.NewTypeName(token.NoPos, pkg, n, nil), u, nil)
	}
	I, S := types.Typ[types.Int], types.Typ[types.String]
	st := types.NewStruct([]*types.Var{types.NewField(token.NoPos, pkg, "A", I, false), types.NewField(token.NoPos, pkg, "B", types.NewSlice(S), false)}, nil)
	named := mk("S", st)
	withChan := mk("C", types.NewStruct([]*types.Var{types.NewField(token.NoPos, pkg, "Ch", types.NewChan(types.SendRecv, I), false)}, nil))
	return []types.Type{
		I, S, types.Typ[types.Float64], types.Typ[types.Bool], types.Typ[types.Complex128],
		named, types.NewPointer(named), types.NewPointer(types.NewPointer(named)), st,
		types.NewSlice(I), types.NewSlice(types.NewPointer(named)), types.NewArray(S, 2), types.NewMap(S, I), types.NewMap(S, types.NewPointer(named)),
		mk("NInt", I), types.NewPointer(I),
		types.NewChan(types.SendRecv, I), types.NewSignature(nil, nil, nil, false), types.NewInterfaceType(nil, nil), withChan, types.NewPointer(withChan),
		types.NewSignature(nil, types.NewTuple(types.NewParam(token.NoPos, pkg, "a", I), types.NewParam(token.NoPos, pkg, "b", S)), types.NewTuple(types.NewParam(token.NoPos, pkg, "", types.Typ[types.Bool]), types.NewParam(token.NoPos, pkg, "", types.Universe.Lookup("error").Type())), false),
	}
}

// isHavocSite: the current frame is the function under test (or a closure of it).
func (ex *Exec) isHavocSite(fr *Frame) bool {
	if ex.Havoc == nil {
		return false
	}
	for f := fr.fn; f != nil; f = f.Parent() {
		if f == ex.Havoc.Root {
			return true
		}
	}
	return false
}

func isLibraryFn(fn *ssa.Function) bool {
	if fn == nil {
		return false
	}
	p := fn.Pkg
	if p == nil {
		if recv := fn.Signature.Recv(); recv != nil {
			rt := recv.Type()
			if pt, ok := rt.(*types.Pointer); ok {
				rt = pt.Elem()
			}
			if n, ok := rt.(*types.Named); ok && n.Obj().Pkg() != nil {
				return !strings.Contains(n.Obj().Pkg().Path(), ".")
			}
		}
		return false
	}
	return !strings.Contains(p.Pkg.Path(), ".") // standard library
}

var errorType = types.Universe.Lookup("error").Type()

// havocValue produces an arbitrary value of a result/parameter type.
func (ex *Exec) havocValue(fr *Frame, t types.Type, label string, pc *Term, what string) Value {
	ts := ex.ts
	h := ex.Havoc
	h.n++
	if types.Identical(t, errorType) {
		g := ts.Var("helperfails", 0)
		h.ErrGs = append(h.ErrGs, ts.And(pc, g))
		h.ErrWhat = append(h.ErrWhat, what)
		return &VIface{[]IfaceAlt{{g, ex.progType(reflect.TypeOf(fmt.Errorf("x"))), &VNative{[]NatAlt{{ts.True, fmt.Errorf("helper %s failed", what)}}}}}}
	}
	if it, ok := t.Underlying().(*types.Interface); ok {
		if n, ok := t.(*types.Named); ok && n.Obj().Pkg() != nil && n.Obj().Pkg().Path() == "go/types" && n.Obj().Name() == "Type" {
			return ex.pickType(label)
		}
		_ = it
		return &VIface{}
	}
	if n, ok := t.(*types.Pointer); ok {
		if nn, ok := n.Elem().(*types.Named); ok && nn.Obj().Pkg() != nil && nn.Obj().Pkg().Path() == "go/types" {
			// a specific go/types node type: those members of the universe, or nil
			out := &VNative{}
			sel := ts.Var(label+".sel", 5)
			k := 0
			for _, u := range h.Universe {
				for _, cand := range []types.Type{u, u.Underlying()} {
					if reflect.TypeOf(cand).String() == "*types."+nn.Obj().Name() {
						out.Alts = append(out.Alts, NatAlt{ts.Eq(sel, ts.BV(uint64(k), 5)), cand})
						k++
						break
					}
				}
			}
			return out
		}
	}
	switch u := t.Underlying().(type) {
	case *types.Basic:
		if u.Info()&types.IsString != 0 {
			return ex.strConst("h" + fmt.Sprint(h.n))
		}
	case *types.Tuple:
		e := make([]Value, u.Len())
		for i := range e {
			e[i] = ex.havocValue(fr, u.At(i).Type(), fmt.Sprintf("%s.%d", label, i), pc, what)
		}
		return &VTuple{e}
	case *types.Signature:
		return &VFunc{}
	case *types.Slice:
		if types.Identical(u.Elem(), nil) {
			return &VSlice{}
		}
		if n, ok := u.Elem().(*types.Named); ok && n.Obj().Name() == "Type" && n.Obj().Pkg() != nil && n.Obj().Pkg().Path() == "go/types" {
			// []types.Type of length 1 or 2
			o := ex.newObj(types.NewArray(u.Elem(), 2), label)
			o.N = 2
			fr.heap[o] = &VArr{[]Value{ex.pickType(label + ".0"), ex.pickType(label + ".1")}}
			ln := ts.Ite(ts.Var(label+".two", 0), ts.BV(2, 64), ts.BV(1, 64))
			return &VSlice{[]SliceAlt{{ts.True, o, ts.BV(0, 64), ln, ts.BV(2, 64)}}}
		}
	}
	// generic: arbitrary value with nil interfaces inside
	c := &ndCtx{ex: ex, heap: Heap{}, b: Bounds{SliceLen: 1, MapLen: 1, StrLen: 1, PtrDepth: 1}, count: map[*types.Named]int{}, rec: 1}
	v, ok := c.mk(t, label)
	if !ok {
		v = ex.zero(t)
	}
	for o, val := range c.heap {
		fr.heap[o] = val
	}
	return v
}

// pickType: a types.Type drawn from the universe (one-hot on a selector variable).
func (ex *Exec) pickType(label string) Value {
	ts := ex.ts
	h := ex.Havoc
	sel := ts.Var(label+".type", 5)
	ex.Assumes = append(ex.Assumes, ts.Ult(sel, ts.BV(uint64(len(h.Universe)), 5)))
	out := &VIface{}
	byDyn := map[string]int{}
	for i, u := range h.Universe {
		g := ts.Eq(sel, ts.BV(uint64(i), 5))
		key := reflect.TypeOf(u).String()
		if k, ok := byDyn[key]; ok {
			a := &out.Alts[k]
			nv := a.V.(*VNative)
			nv.Alts = append(nv.Alts, NatAlt{g, u})
			a.G = ts.Or(a.G, g)
			continue
		}
		byDyn[key] = len(out.Alts)
		out.Alts = append(out.Alts, IfaceAlt{g, ex.progType(reflect.TypeOf(u)), &VNative{[]NatAlt{{g, u}}}})
	}
	return out
}

// havocCall replaces a call by arbitrary results.
func (ex *Exec) havocCall(fr *Frame, sig *types.Signature, what string) Value {
	r := sig.Results()
	switch r.Len() {
	case 0:
		return nil
	case 1:
		return ex.havocValue(fr, r.At(0).Type(), "h."+what, fr.pc, what)
	}
	return ex.havocValue(fr, r, "h."+what, fr.pc, what)
}

type HavocResult struct {
	Fn      string   `json:"function"`
	Status  string   `json:"status"` // ok | swallows | unsupported | trivial
	Detail  string   `json:"detail,omitempty"`
	Helpers []string `json:"helpers,omitempty"`
	Ms      int64    `json:"ms"`
	Terms   int      `json:"terms"`
	Instrs  int      `json:"ssa_instructions"`
	Witness string   `json:"witness,omitempty"`
}

// runHavoc checks one function.
func runHavoc(ld *Loaded, fn *ssa.Function, pool *Pool) (res HavocResult) {
	res = HavocResult{Fn: fn.String()}
	for _, b := range fn.Blocks {
		res.Instrs += len(b.Instrs)
	}
	ex := NewExec(ld.Prog, Bounds{SliceLen: 2, SpareCap: 0, MapLen: 1, StrLen: 1, PtrDepth: 1, Unwind: 4, CallDepth: 2})
	ex.Native = NewNativeEnv()
	ex.Havoc = &HavocEnv{Root: fn, Universe: havocUniverse()}
	ex.pool = pool
	var ret Value
	func() {
		defer func() {
			if r := recover(); r != nil {
				res.Status = "unsupported"
				res.Detail = trunc(fmt.Sprint(r), 300)
			}
		}()
		fr := &Frame{ex: ex, fn: fn, heap: Heap{}, pc: ex.ts.True}
		var args []Value
		for i, p := range fn.Params {
			t := p.Type()
			if i == 0 && fn.Signature.Recv() != nil {
				// receiver: pointer to a zero-valued generator struct (all its collaborators are havocked)
				if pt, ok := t.(*types.Pointer); ok {
					o := ex.newObj(pt.Elem(), "receiver")
					fr.heap[o] = ex.zero(pt.Elem())
					args = append(args, &VPtr{Alts: []PtrAlt{{G: ex.ts.True, Obj: o}}, Safe: true})
					continue
				}
			}
			args = append(args, ex.havocValue(fr, t, "arg."+p.Name(), ex.ts.True, "argument"))
		}
		ex.Havoc.ErrGs, ex.Havoc.ErrWhat = nil, nil // errors among the arguments do not count
		ret, _ = ex.callFunction(fn, args, nil, fr.heap, ex.ts.True, 0)
	}()
	res.Terms = len(ex.ts.nodes)
	if res.Status == "unsupported" {
		return
	}
	seen := map[string]bool{}
	for _, w := range ex.Havoc.ErrWhat {
		if !seen[w] {
			seen[w] = true
			res.Helpers = append(res.Helpers, w)
		}
	}
	sort.Strings(res.Helpers)
	if len(ex.Havoc.ErrGs) == 0 {
		res.Status = "trivial"
		return
	}
	// returned error value
	var errV Value = ret
	if t, ok := ret.(*VTuple); ok {
		errV = t.E[len(t.E)-1]
	}
	var nonNil *Term
	switch e := errV.(type) {
	case *VIface:
		nonNil = ex.ifaceNonNil(e)
	case *VNative:
		gs := []*Term{}
		for _, a := range e.Alts {
			gs = append(gs, a.G)
		}
		nonNil = ex.ts.Or(gs...)
	default:
		res.Status = "unsupported"
		res.Detail = fmt.Sprintf("result error has shape %T", errV)
		return
	}
	cond := ex.ts.And(ex.ts.Or(ex.Havoc.ErrGs...), ex.ts.Not(nonNil))
	o := Obligation{Kind: "assert", Cond: cond, Label: "a failing helper makes the function fail"}
	or := dischargeObl(ex, o, RunOpts{}, pool)
	res.Ms = or.Ms
	switch or.Status {
	case "unsat":
		res.Status = "ok"
	case "sat":
		res.Status = "swallows"
		// which helper(s) fail in the model
		if or.Model != nil {
			res.Witness = "helper error returned and dropped"
		}
	default:
		res.Status = "unsupported"
		res.Detail = "solver " + or.Status
	}
	return
}
