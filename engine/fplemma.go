package main

import (
	"fmt"
	"time"
)

// cmdFpLemma validates the bit-vector lowering of IEEE comparisons against the solver's FP theory:
// for each width and operator, (lowered != theory) must be unsat.
func cmdFpLemma() int {
	ok := true
	for _, w := range []int{32, 64} {
		for _, op := range []Op{OFpEq, OFpLt, OFpLe, OFpIsNaN} {
			ts := NewTS()
			a, b := ts.Var("a", w), ts.Var("b", w)
			var low, th *Term
			if op == OFpIsNaN {
				low, th = ts.FpIsNaN(a), ts.FpTheory(OFpIsNaN, a, nil)
			} else {
				low, th = ts.Fp(op, a, b), ts.FpTheory(op, a, b)
			}
			diff := ts.Not(ts.Eq(low, th))
			for _, sn := range []string{"z3", "cvc5"} {
				s, err := StartSolver(sn)
				if err != nil {
					fmt.Println("fplemma: cannot start", sn, err)
					ok = false
					continue
				}
				qr := s.Check(ts.Script([]*Term{diff}), []string{diff.ref()}, nil, 120*time.Second)
				s.Close()
				fmt.Printf("fplemma w=%d op=%d solver=%s -> %s (%dms)\n", w, op, sn, qr.Status, qr.Time.Milliseconds())
				if qr.Status != "unsat" {
					ok = false
				}
			}
		}
	}
	if ok {
		fmt.Println("fplemma: bit-vector lowering of fp.eq/fp.lt/fp.leq/fp.isNaN agrees with the FP theory (16 queries unsat)")
		return 0
	}
	return 3
}
