package main

import (
	"go/types"

	"golang.org/x/tools/go/ssa"
)

// Mode B: concrete native values (go/types objects etc.) inside the symbolic executor.
type NativeEnv struct{}

func (ex *Exec) nativeEq(x, y Value) *Term { panic(unsupported("native ==")) }
func (ex *Exec) nativeTypeAssert(fr *Frame, nv *VNative, i *ssa.TypeAssert) Value {
	panic(unsupported("native type assert"))
}
func (ex *Exec) nativeInvoke(fr *Frame, nv *VNative, method string, args []Value, resT types.Type) Value {
	panic(unsupported("native invoke"))
}
func (ex *Exec) nativeCallValue(fr *Frame, nv *VNative, args []Value, resT types.Type) Value {
	panic(unsupported("native call value"))
}
func (ex *Exec) nativeCall(fr *Frame, fn *ssa.Function, args []Value, pc *Term, in ssa.Instruction) (Value, bool) {
	return nil, false
}
