package main

// Mode B: concrete native Go values (go/types objects, ...) inside the symbolic executor.
//
// A symbolic value may be a guarded union of concrete native objects (VNative) or of constant
// strings (VStr.Alts). Calls into a small whitelist of pure library functions are executed natively
// by reflection, once per combination of alternatives, and the results merged under the guards.

import (
	"fmt"
	"go/types"
	"reflect"
	"sort"
	"strconv"
	"strings"
	"unicode"
	"unsafe"

	"golang.org/x/tools/go/ssa"
)

type NativeEnv struct {
	Funcs       map[string]reflect.Value // "go/types.AssignableTo" -> func
	Globals     map[string]reflect.Value // "go/types.Typ" -> value
	Types       map[string]reflect.Type  // "*go/types.Named" -> reflect type
	Calls       int
	placeholder map[string]types.Type
}

func NewNativeEnv() *NativeEnv {
	n := &NativeEnv{Funcs: map[string]reflect.Value{}, Globals: map[string]reflect.Value{}, Types: map[string]reflect.Type{}, placeholder: map[string]types.Type{}}
	f := func(name string, fn interface{}) { n.Funcs[name] = reflect.ValueOf(fn) }
	f("go/types.AssignableTo", types.AssignableTo)
	f("go/types.ConvertibleTo", types.ConvertibleTo)
	f("go/types.Identical", types.Identical)
	f("go/types.Comparable", types.Comparable)
	f("go/types.Default", types.Default)
	f("go/types.TypeString", types.TypeString)
	f("go/types.NewPackage", types.NewPackage)
	f("go/types.NewTypeName", types.NewTypeName)
	f("go/types.NewNamed", types.NewNamed)
	f("go/types.NewSlice", types.NewSlice)
	f("go/types.NewPointer", types.NewPointer)
	f("go/types.NewArray", types.NewArray)
	f("go/types.NewMap", types.NewMap)
	f("go/types.NewVar", types.NewVar)
	f("go/types.NewField", types.NewField)
	f("go/types.NewStruct", types.NewStruct)
	f("go/types.NewTuple", types.NewTuple)
	f("go/types.NewSignature", types.NewSignature)
	f("go/types.NewChan", types.NewChan)
	f("go/types.NewInterfaceType", types.NewInterfaceType)
	f("go/types.NewParam", types.NewParam)
	f("strings.Join", strings.Join)
	f("strings.Repeat", strings.Repeat)
	f("strings.TrimSpace", strings.TrimSpace)
	f("strings.Fields", strings.Fields)
	f("strconv.Itoa", strconv.Itoa)
	f("strconv.Quote", strconv.Quote)
	f("strings.HasPrefix", strings.HasPrefix)
	f("strings.HasSuffix", strings.HasSuffix)
	f("strings.Contains", strings.Contains)
	f("strings.Replace", strings.Replace)
	f("strings.Split", strings.Split)
	f("strings.LastIndex", strings.LastIndex)
	f("strings.Index", strings.Index)
	f("strings.TrimPrefix", strings.TrimPrefix)
	f("strings.ToUpper", strings.ToUpper)
	f("strings.ToLower", strings.ToLower)
	f("strings.Title", strings.Title)
	f("unicode.IsUpper", unicode.IsUpper)
	f("unicode.ToUpper", unicode.ToUpper)
	n.Globals["go/types.Typ"] = reflect.ValueOf(types.Typ)
	n.Globals["go/types.Universe"] = reflect.ValueOf(types.Universe)
	for _, z := range []interface{}{(*types.Named)(nil), (*types.Basic)(nil), (*types.Pointer)(nil), (*types.Slice)(nil), (*types.Array)(nil),
		(*types.Map)(nil), (*types.Struct)(nil), (*types.Signature)(nil), (*types.Tuple)(nil), (*types.Interface)(nil), (*types.Chan)(nil),
		(*types.Package)(nil), (*types.TypeName)(nil), (*types.Var)(nil), (*types.Alias)(nil), (*types.Scope)(nil)} {
		t := reflect.TypeOf(z)
		n.Types["*"+t.Elem().PkgPath()+"."+t.Elem().Name()] = t
	}
	return n
}

func isNativePkgPath(p string) bool {
	return p == "go/types" || p == "strconv" || p == "strings" || p == "unicode" || p == "go/token"
}

// progType maps a native dynamic type to the analysed program's types.Type.
func (ex *Exec) progType(rt reflect.Type) types.Type {
	key := rt.String()
	if t, ok := ex.Native.placeholder[key]; ok {
		return t
	}
	var res types.Type
	base := rt
	ptr := false
	if rt.Kind() == reflect.Pointer {
		base, ptr = rt.Elem(), true
	}
	if base.PkgPath() != "" && base.Name() != "" {
		for _, p := range ex.prog.AllPackages() {
			if p.Pkg.Path() == base.PkgPath() {
				if o := p.Pkg.Scope().Lookup(base.Name()); o != nil {
					res = o.Type()
					if ptr {
						res = types.NewPointer(res)
					}
				}
			}
		}
	}
	if res == nil {
		res = types.NewNamed(types.NewTypeName(0, nil, "native:"+key, nil), types.NewStruct(nil, nil), nil)
	}
	ex.Native.placeholder[key] = res
	return res
}

type lowAlt struct {
	G *Term
	V reflect.Value
}

// lower enumerates the concrete alternatives of a symbolic value as native values of type rt.
func (ex *Exec) lower(fr *Frame, v Value, rt reflect.Type) []lowAlt {
	ts := ex.ts
	one := func(x reflect.Value) []lowAlt { return []lowAlt{{ts.True, x}} }
	switch x := v.(type) {
	case nil:
		return one(reflect.Zero(rt))
	case *VBV:
		var out []lowAlt
		var walk func(t *Term, g *Term)
		walk = func(t *Term, g *Term) {
			if g.IsFalse() {
				return
			}
			if t.Op == OConst {
				rv := reflect.New(rt).Elem()
				switch rt.Kind() {
				case reflect.Bool:
					rv.SetBool(t.Val == 1)
				case reflect.Int, reflect.Int8, reflect.Int16, reflect.Int32, reflect.Int64:
					rv.SetInt(sext64(t.Val, t.W))
				case reflect.Uint, reflect.Uint8, reflect.Uint16, reflect.Uint32, reflect.Uint64, reflect.Uintptr:
					rv.SetUint(t.Val)
				default:
					panic(unsupported("native argument of kind " + rt.Kind().String()))
				}
				out = append(out, lowAlt{g, rv})
				return
			}
			if t.Op == OIte && t.CT {
				walk(t.Args[1], ts.And(g, t.Args[0]))
				walk(t.Args[2], ts.And(g, ts.Not(t.Args[0])))
				return
			}
			if t.W == 0 {
				// a symbolic boolean: split
				rt1, rf := reflect.New(rt).Elem(), reflect.New(rt).Elem()
				rt1.SetBool(true)
				out = append(out, lowAlt{ts.And(g, t), rt1}, lowAlt{ts.And(g, ts.Not(t)), rf})
				return
			}
			panic(unsupported("symbolic integer passed to a native function"))
		}
		walk(x.T, ts.True)
		return out
	case *VStr:
		if x.Alts != nil {
			var out []lowAlt
			for _, a := range x.Alts {
				out = append(out, lowAlt{a.G, reflect.ValueOf(a.S).Convert(rt)})
			}
			return out
		}
		panic(unsupported("symbolic string passed to a native function"))
	case *VNative:
		if len(x.Alts) == 0 {
			return one(reflect.Zero(rt))
		}
		var out []lowAlt
		nn := ts.False
		for _, a := range x.Alts {
			rv := reflect.ValueOf(a.V)
			if !rv.IsValid() {
				rv = reflect.Zero(rt)
			} else if rv.Type() != rt && rv.Type().ConvertibleTo(rt) && rt.Kind() != reflect.Interface {
				rv = rv.Convert(rt)
			}
			out = append(out, lowAlt{a.G, rv})
			nn = ts.Or(nn, a.G)
		}
		if !nn.IsTrue() {
			// no native call is made with a nil receiver/argument: that case must be infeasible
			fr.panicIf(ts.Not(nn), nil, "possibly-nil value passed to a library function")
		}
		return out
	case *VIface:
		if len(x.Alts) == 0 {
			return one(reflect.Zero(rt))
		}
		var out []lowAlt
		nn := ts.False
		for _, a := range x.Alts {
			inner := ex.lower(fr, a.V, ex.reflectTypeOf(a.T, rt))
			for _, l := range inner {
				out = append(out, lowAlt{ts.And(a.G, l.G), l.V})
			}
			nn = ts.Or(nn, a.G)
		}
		if !nn.IsTrue() {
			fr.panicIf(ts.Not(nn), nil, "possibly-nil interface passed to a library function")
		}
		return out
	case *VPtr:
		if len(x.Alts) == 0 {
			return one(reflect.Zero(rt))
		}
		panic(unsupported("pointer to symbolic memory passed to a native function"))
	case *VFunc:
		if len(x.Alts) == 0 {
			return one(reflect.Zero(rt))
		}
		// callbacks are not executed: a stub returning zero values (e.g. a types.Qualifier returning "")
		fn := reflect.MakeFunc(rt, func(args []reflect.Value) []reflect.Value {
			out := make([]reflect.Value, rt.NumOut())
			for i := range out {
				out[i] = reflect.Zero(rt.Out(i))
			}
			return out
		})
		return one(fn)
	case *VSlice:
		if len(x.Alts) == 0 {
			return one(reflect.Zero(rt))
		}
		if len(x.Alts) != 1 || !x.Alts[0].Len.IsConst() || !x.Alts[0].Off.IsConst() {
			panic(unsupported("symbolic-length slice passed to a native function"))
		}
		a := x.Alts[0]
		n, off := int(a.Len.Val), int(a.Off.Val)
		arr := fr.heapGet(a.Obj).(*VArr)
		combos := []lowAlt{{a.G, reflect.MakeSlice(rt, n, n)}}
		for i := 0; i < n; i++ {
			els := ex.lower(fr, arr.E[off+i], rt.Elem())
			var next []lowAlt
			for _, c := range combos {
				for _, e := range els {
					g := ts.And(c.G, e.G)
					if g.IsFalse() {
						continue
					}
					s := reflect.MakeSlice(rt, n, n)
					reflect.Copy(s, c.V)
					s.Index(i).Set(e.V)
					next = append(next, lowAlt{g, s})
				}
			}
			combos = next
			if len(combos) > 256 {
				panic(unsupported("too many native argument combinations"))
			}
		}
		if !a.G.IsTrue() {
			combos = append(combos, lowAlt{ts.Not(a.G), reflect.Zero(rt)})
		}
		return combos
	}
	panic(unsupported(fmt.Sprintf("cannot pass %T to a native function", v)))
}

func (ex *Exec) reflectTypeOf(t types.Type, def reflect.Type) reflect.Type {
	if rt, ok := ex.Native.Types[t.String()]; ok {
		return rt
	}
	switch u := t.Underlying().(type) {
	case *types.Basic:
		switch u.Kind() {
		case types.String:
			return reflect.TypeOf("")
		case types.Int:
			return reflect.TypeOf(0)
		case types.Bool:
			return reflect.TypeOf(false)
		}
	}
	return def
}

// lift converts a native value to a symbolic one according to the program's static type.
func (ex *Exec) lift(fr *Frame, rv reflect.Value, t types.Type) Value {
	ts := ex.ts
	if t == nil {
		return nil
	}
	switch u := t.Underlying().(type) {
	case *types.Basic:
		switch {
		case u.Info()&types.IsBoolean != 0:
			return &VBV{ts.Bool(rv.Bool())}
		case u.Info()&types.IsString != 0:
			return ex.strConst(rv.String())
		case u.Info()&types.IsInteger != 0:
			w, signed := ex.intW(t)
			if signed {
				return &VBV{ts.BV(uint64(rv.Int()), w)}
			}
			return &VBV{ts.BV(rv.Uint(), w)}
		}
	case *types.Interface:
		if !rv.IsValid() || rv.IsNil() {
			return &VIface{}
		}
		dyn := rv.Elem()
		return &VIface{[]IfaceAlt{{ts.True, ex.progType(dyn.Type()), ex.liftDyn(fr, dyn)}}}
	case *types.Pointer, *types.Signature, *types.Map, *types.Chan:
		if rv.Kind() != reflect.Func && rv.IsNil() {
			return &VNative{}
		}
		return &VNative{[]NatAlt{{ts.True, rv.Interface()}}}
	case *types.Slice:
		if rv.IsNil() {
			return &VSlice{}
		}
		n := rv.Len()
		o := ex.newObj(types.NewArray(u.Elem(), int64(n)), "native slice")
		o.N = n
		arr := &VArr{E: make([]Value, n)}
		for i := 0; i < n; i++ {
			arr.E[i] = ex.lift(fr, rv.Index(i), u.Elem())
		}
		fr.heap[o] = arr
		return &VSlice{[]SliceAlt{{ts.True, o, ts.BV(0, 64), ts.BV(uint64(n), 64), ts.BV(uint64(n), 64)}}}
	case *types.Tuple:
		e := make([]Value, u.Len())
		for i := range e {
			e[i] = ex.lift(fr, rv.Index(i), u.At(i).Type())
		}
		return &VTuple{e}
	case *types.Struct:
		return &VNative{[]NatAlt{{ts.True, rv.Interface()}}}
	}
	panic(unsupported("cannot lift native result of type " + t.String()))
}

func (ex *Exec) liftDyn(fr *Frame, rv reflect.Value) Value {
	ts := ex.ts
	switch rv.Kind() {
	case reflect.Bool:
		return &VBV{ts.Bool(rv.Bool())}
	case reflect.String:
		return ex.strConst(rv.String())
	case reflect.Int, reflect.Int8, reflect.Int16, reflect.Int32, reflect.Int64:
		return &VBV{ts.BV(uint64(rv.Int()), int(rv.Type().Size())*8)}
	}
	return &VNative{[]NatAlt{{ts.True, rv.Interface()}}}
}

// callNative calls fn over every combination of argument alternatives and merges the results.
func (ex *Exec) callNative(fr *Frame, fn reflect.Value, args []Value, resT types.Type, what string) Value {
	ts := ex.ts
	ft := fn.Type()
	type combo struct {
		G *Term
		A []reflect.Value
	}
	combos := []combo{{ts.True, nil}}
	np := ft.NumIn()
	for i := 0; i < len(args); i++ {
		var pt reflect.Type
		if ft.IsVariadic() && i >= np-1 {
			pt = ft.In(np - 1) // the packed slice
		} else {
			pt = ft.In(i)
		}
		alts := ex.lower(fr, args[i], pt)
		var next []combo
		for _, c := range combos {
			for _, a := range alts {
				g := ts.And(c.G, a.G)
				if g.IsFalse() {
					continue
				}
				next = append(next, combo{g, append(append([]reflect.Value{}, c.A...), a.V)})
			}
		}
		combos = next
		if len(combos) > 4096 {
			panic(unsupported("too many native argument combinations"))
		}
	}
	var res Value
	for k := len(combos) - 1; k >= 0; k-- {
		c := combos[k]
		ex.Native.Calls++
		var outs []reflect.Value
		panicked := false
		func() {
			defer func() {
				if r := recover(); r != nil {
					// on a feasible path the real program panics here too: a panic obligation
					panicked = true
					fr.panicIf(c.G, nil, fmt.Sprintf("native call %s panicked: %v", what, r))
				}
			}()
			if ft.IsVariadic() {
				outs = fn.CallSlice(c.A)
			} else {
				outs = fn.Call(c.A)
			}
		}()
		if panicked {
			if k == len(combos)-1 && resT != nil {
				res = ex.zero(resT)
			}
			continue
		}
		var r Value
		switch len(outs) {
		case 0:
		case 1:
			r = ex.lift(fr, outs[0], resT)
		default:
			tt := resT.(*types.Tuple)
			e := make([]Value, len(outs))
			for i := range outs {
				e[i] = ex.lift(fr, outs[i], tt.At(i).Type())
			}
			r = &VTuple{e}
		}
		if k == len(combos)-1 {
			res = r
		} else if r != nil {
			res = ex.merge(c.G, r, res)
		}
	}
	if res == nil && resT != nil && len(combos) == 0 {
		res = ex.zero(resT)
	}
	return res
}

func resultType(sig *types.Signature) types.Type {
	switch sig.Results().Len() {
	case 0:
		return nil
	case 1:
		return sig.Results().At(0).Type()
	}
	return sig.Results()
}

// nativeCall intercepts static calls into the whitelisted native packages.
func (ex *Exec) nativeCall(fr *Frame, fn *ssa.Function, args []Value, pc *Term, in ssa.Instruction) (Value, bool) {
	if fn.Pkg == nil {
		// synthetic wrapper (promoted method of an embedded field) on a native receiver type
		if recv := fn.Signature.Recv(); recv != nil && fn.Synthetic != "" {
			rt := recv.Type()
			if p, ok := rt.(*types.Pointer); ok {
				rt = p.Elem()
			}
			if n, ok := rt.(*types.Named); ok && n.Obj().Pkg() != nil && isNativePkgPath(n.Obj().Pkg().Path()) {
				return ex.nativeMethod(fr, args[0], fn.Name(), args[1:], resultType(fn.Signature)), true
			}
		}
		return nil, false
	}
	if !isNativePkgPath(fn.Pkg.Pkg.Path()) {
		return nil, false
	}
	resT := resultType(fn.Signature)
	if fn.Signature.Recv() != nil {
		// method on a native receiver
		recv := args[0]
		return ex.nativeMethod(fr, recv, fn.Name(), args[1:], resT), true
	}
	key := fn.Pkg.Pkg.Path() + "." + fn.Name()
	f, ok := ex.Native.Funcs[key]
	if !ok {
		panic(unsupported("native function not whitelisted: " + key))
	}
	return ex.callNative(fr, f, args, resT, key), true
}

func (ex *Exec) nativeMethod(fr *Frame, recv Value, name string, args []Value, resT types.Type) Value {
	var alts []NatAlt
	switch r := recv.(type) {
	case *VNative:
		alts = r.Alts
	case *VIface:
		for _, a := range r.Alts {
			if nv, ok := a.V.(*VNative); ok {
				for _, n := range nv.Alts {
					alts = append(alts, NatAlt{ex.ts.And(a.G, n.G), n.V})
				}
			} else {
				panic(unsupported("native method on non-native receiver"))
			}
		}
	default:
		panic(unsupported(fmt.Sprintf("native method %s on %T", name, recv)))
	}
	if len(alts) == 0 {
		panic(unsupported("native method " + name + " on nil receiver"))
	}
	var res Value
	for k := len(alts) - 1; k >= 0; k-- {
		a := alts[k]
		m := reflect.ValueOf(a.V).MethodByName(name)
		if !m.IsValid() {
			panic(unsupported("native method not found: " + name))
		}
		r := ex.callNative(fr, m, args, resT, fmt.Sprintf("(%T).%s", a.V, name))
		if k == len(alts)-1 {
			res = r
		} else if r != nil {
			res = ex.merge(a.G, r, res)
		}
	}
	return res
}

func (ex *Exec) nativeInvoke(fr *Frame, nv *VNative, method string, args []Value, resT types.Type) Value {
	return ex.nativeMethod(fr, nv, method, args, resT)
}

func (ex *Exec) nativeCallValue(fr *Frame, nv *VNative, args []Value, resT types.Type) Value {
	panic(unsupported("call of a native function value"))
}

func (ex *Exec) natAlts(v Value) ([]NatAlt, bool) {
	switch x := v.(type) {
	case *VNative:
		return x.Alts, true
	case *VPtr:
		if len(x.Alts) == 0 {
			return nil, true
		}
	case *VIface:
		if len(x.Alts) == 0 {
			return nil, true
		}
	case *VFunc:
		if len(x.Alts) == 0 {
			return nil, true
		}
	}
	return nil, false
}

// nativeEq: identity comparison of native references (and nil).
func (ex *Exec) nativeEq(x, y Value) *Term {
	ts := ex.ts
	xa, ok1 := ex.natAlts(x)
	ya, ok2 := ex.natAlts(y)
	if !ok1 || !ok2 {
		panic(unsupported("comparison of native and symbolic values"))
	}
	nn := func(a []NatAlt) *Term {
		gs := make([]*Term, len(a))
		for i := range a {
			gs[i] = a[i].G
		}
		return ts.Or(gs...)
	}
	cs := []*Term{ts.And(ts.Not(nn(xa)), ts.Not(nn(ya)))}
	for _, p := range xa {
		for _, q := range ya {
			if natSame(p.V, q.V) {
				cs = append(cs, ts.And(p.G, q.G))
			}
		}
	}
	return ts.Or(cs...)
}

func (ex *Exec) nativeTypeAssert(fr *Frame, nv *VNative, i *ssa.TypeAssert) Value {
	panic(unsupported("type assertion directly on a native value"))
}

// nativeFieldAddr: address of a field of a native struct (used for promoted methods of embedded fields).
func (ex *Exec) nativeFieldAddr(fr *Frame, nv *VNative, field int, in ssa.Instruction) Value {
	out := &VNative{}
	nn := ex.ts.False
	for _, a := range nv.Alts {
		rv := reflect.ValueOf(a.V)
		if rv.Kind() != reflect.Pointer || rv.IsNil() || rv.Elem().Kind() != reflect.Struct {
			panic(unsupported("field address of a non-struct native value"))
		}
		f := rv.Elem().Field(field)
		p := reflect.NewAt(f.Type(), unsafe.Pointer(f.UnsafeAddr()))
		out.Alts = append(out.Alts, NatAlt{a.G, p.Interface()})
		nn = ex.ts.Or(nn, a.G)
	}
	fr.panicIf(ex.ts.Not(nn), in, "nil pointer dereference")
	return out
}

// nativeGlobalInit returns the initial content of a global of a native package.
func (ex *Exec) nativeGlobalInit(fr *Frame, g *ssa.Global) (Value, bool) {
	if ex.Native == nil || g.Pkg == nil || !isNativePkgPath(g.Pkg.Pkg.Path()) {
		return nil, false
	}
	rv, ok := ex.Native.Globals[g.Pkg.Pkg.Path()+"."+g.Name()]
	if !ok {
		panic(unsupported("native global not whitelisted: " + g.Pkg.Pkg.Path() + "." + g.Name()))
	}
	return ex.lift(fr, rv, g.Type().(*types.Pointer).Elem()), true
}

// strFromAlts builds the byte/length view of a guarded union of constant strings.
func (ex *Exec) strFromAlts(alts []StrAlt) *VStr {
	ts := ex.ts
	// merge equal strings
	sort.SliceStable(alts, func(i, j int) bool { return alts[i].S < alts[j].S })
	var m []StrAlt
	for _, a := range alts {
		if a.G.IsFalse() {
			continue
		}
		if len(m) > 0 && m[len(m)-1].S == a.S {
			m[len(m)-1].G = ts.Or(m[len(m)-1].G, a.G)
		} else {
			m = append(m, a)
		}
	}
	maxLen := 0
	for _, a := range m {
		if len(a.S) > maxLen {
			maxLen = len(a.S)
		}
	}
	out := &VStr{Alts: m, B: make([]*Term, maxLen)}
	if len(m) == 0 {
		out.Len = ts.BV(0, 64)
		out.Alts = []StrAlt{}
		return out
	}
	ln := ts.BV(uint64(len(m[len(m)-1].S)), 64)
	for k := len(m) - 2; k >= 0; k-- {
		ln = ts.Ite(m[k].G, ts.BV(uint64(len(m[k].S)), 64), ln)
	}
	out.Len = ln
	for i := 0; i < maxLen; i++ {
		at := func(s string) *Term {
			if i < len(s) {
				return ts.BV(uint64(s[i]), 8)
			}
			return ts.BV(0, 8)
		}
		b := at(m[len(m)-1].S)
		for k := len(m) - 2; k >= 0; k-- {
			b = ts.Ite(m[k].G, at(m[k].S), b)
		}
		out.B[i] = b
	}
	return out
}
