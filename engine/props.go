package main

import (
	"fmt"
	"strings"
)

// Harness templates per property. Each returns Go source for harness functions over one instantiation.

type HarnessSrc struct {
	Name string
	Src  string
	Kind string // spec, trans, ...
	KF   string // known-finding id if this harness is the un-carved twin
}

type PropGen func(g *Gen, in Inst, tier string) []HarnessSrc

func h(name, kind, body string) HarnessSrc {
	return HarnessSrc{Name: name, Kind: kind, Src: fmt.Sprintf("func %s() {\n%s}\n", name, body)}
}

func nd(t *Ty, name string) string { return fmt.Sprintf("vx.Nondet[%s](%q)", t.Expr(), name) }
func ndo(t *Ty, name, opt string) string {
	if opt == "" {
		return nd(t, name)
	}
	return fmt.Sprintf("vx.NondetOpt[%s](%q, %q)", t.Expr(), name, opt)
}

// recMapOpt: recursion through a map multiplies sorted-key comparisons; one entry per map, 1-byte keys.
func recMapOpt(in Inst) string {
	if in.Tags["rec"] && in.Tags["map"] {
		return "map=1,str=1"
	}
	return ""
}

// smallOpt: reduced bounds for three-value harnesses over recursive / deep types.
func smallOpt(in Inst) string {
	if in.Tags["rec"] {
		return "len=1,cap=0,map=1,str=1"
	}
	if in.Tags["map"] {
		return "len=1,cap=0,str=1"
	}
	return ""
}

// ----- C02 -----

func genC02(g *Gen, in Inst, tier string) []HarnessSrc {
	T := in.T
	g.declare(T)
	eq := "deriveEqual" + in.ID
	ref := g.RefEq(T)
	var out []HarnessSrc
	if in.Tags["bytes"] && isComponentBytes(T) {
		// known finding F2: []byte components compared with bytes.Equal (nil == empty)
		lax := g.RefEqLaxBytes(T)
		out = append(out, h("VX_C02_spec_"+in.ID, "spec", fmt.Sprintf(
			"\tx := %s\n\ty := %s\n\tvx.Assume(%s(x, y) == %s(x, y))\n\tvx.Assert(%s(x, y) == %s(x, y), \"equal-is-structural (outside F2 region)\")\n",
			nd(T, "x"), nd(T, "y"), ref, lax, eq, ref)))
		kf := h("VX_C02_spec_"+in.ID+"__KF_F2", "spec", fmt.Sprintf(
			"\tx := %s\n\ty := %s\n\tvx.Assert(%s(x, y) == %s(x, y), \"equal-is-structural\")\n",
			nd(T, "x"), nd(T, "y"), eq, ref))
		kf.KF = "F2"
		out = append(out, kf)
	} else {
		out = append(out, h("VX_C02_spec_"+in.ID, "spec", fmt.Sprintf(
			"\tx := %s\n\ty := %s\n\tvx.Assert(%s(x, y) == %s(x, y), \"equal-is-structural\")\n",
			nd(T, "x"), nd(T, "y"), eq, ref)))
	}
	out = append(out, h("VX_C02_refl_"+in.ID, "refl", fmt.Sprintf(
		"\tx := %s\n\tvx.Assert(%s(x, x), \"reflexive (same object)\")\n", nd(T, "x"), eq)))
	out = append(out, h("VX_C02_symm_"+in.ID, "symm", fmt.Sprintf(
		"\tx := %s\n\ty := %s\n\tvx.Assert(%s(x, y) == %s(y, x), \"symmetric\")\n", nd(T, "x"), nd(T, "y"), eq, eq)))
	out = append(out, h("VX_C02_curried_"+in.ID, "curried", fmt.Sprintf(
		"\tx := %s\n\ty := %s\n\tvx.Assert(%sC(x)(y) == %s(x, y), \"curried form agrees\")\n", nd(T, "x"), nd(T, "y"), eq, eq)))
	if in.Tags["userEqual"] || tier != "quick" || in.Tags["rec"] {
		out = append(out, h("VX_C02_trans_"+in.ID, "trans", fmt.Sprintf(
			"\tx := %s\n\ty := %s\n\tz := %s\n\tvx.Assume(%s(x, y) && %s(y, z))\n\tvx.Assert(%s(x, z), \"transitive\")\n",
			ndo(T, "x", smallOpt(in)), ndo(T, "y", smallOpt(in)), ndo(T, "z", smallOpt(in)), eq, eq, eq)))
	}
	// component consistency: struct{A int; F U; Z string} vs U at top level
	if st := ptrToStructWithF(T); st != nil {
		U := st.Fields[1].T
		ceq := "deriveEqualComp" + in.ID
		sn := T.Elem.Name
		out = append(out, h("VX_C02_component_"+in.ID, "component", fmt.Sprintf(
			"\tx := %s\n\ty := %s\n\ta := &%s{F: x}\n\tb := &%s{F: y}\n\tvx.Assert(%s(a, b) == %s(x, y), \"component compared the same at top level and as a field\")\n",
			nd(U, "x"), nd(U, "y"), sn, sn, eq, ceq)))
	}
	out = append(out, h("VX_TV_C02_"+in.ID, "tv", fmt.Sprintf(
		"\tx := %s\n\ty := %s\n\tvx.Observe(\"eq\", %s(x, y))\n\tvx.Observe(\"eqxx\", %s(x, x))\n", nd(T, "x"), nd(T, "y"), eq, eq)))
	return out
}

func ptrToStructWithF(t *Ty) *Ty {
	if t.K == "ptr" && t.Elem.K == "named" && strings.HasPrefix(t.Elem.Name, "W") && t.Elem.Under.K == "struct" &&
		len(t.Elem.Under.Fields) == 3 && t.Elem.Under.Fields[1].Name == "F" {
		return t.Elem.Under
	}
	return nil
}

// isComponentBytes: some []byte occurs strictly below the top level as a struct field
// (goderive uses bytes.Equal/bytes.Compare for []byte fields only).
func isComponentBytes(t *Ty) bool {
	found := false
	t.walk(func(x *Ty) {
		if x.K == "struct" {
			for _, f := range x.Fields {
				if f.T.K == "slice" && f.T.Elem.K == "basic" && f.T.Elem.Name == "uint8" {
					found = true
				}
			}
		}
	})
	return found
}

// RefEqLaxBytes: structural equality that identifies nil and empty []byte struct fields.
func (g *Gen) RefEqLaxBytes(t *Ty) string {
	t = g.resolve(t)
	name := "refEqLax_" + t.Mangle()
	if _, ok := g.funcs[name]; ok {
		return name
	}
	g.funcs[name] = ""
	g.forder = append(g.forder, name)
	u := t
	if t.K == "named" {
		u = g.resolve(t.Under)
	}
	var body string
	switch u.K {
	case "basic":
		body = "\treturn a == b\n"
	case "ptr":
		body = fmt.Sprintf("\tif a == nil || b == nil {\n\t\treturn a == nil && b == nil\n\t}\n\treturn %s(*a, *b)\n", g.RefEqLaxBytes(u.Elem))
	case "slice":
		body = fmt.Sprintf("\tif a == nil || b == nil {\n\t\treturn a == nil && b == nil\n\t}\n\tif len(a) != len(b) {\n\t\treturn false\n\t}\n\tfor i := 0; i < len(a); i++ {\n\t\tif !%s(a[i], b[i]) {\n\t\t\treturn false\n\t\t}\n\t}\n\treturn true\n", g.RefEqLaxBytes(u.Elem))
	case "array":
		body = fmt.Sprintf("\tfor i := 0; i < len(a); i++ {\n\t\tif !%s(a[i], b[i]) {\n\t\t\treturn false\n\t\t}\n\t}\n\treturn true\n", g.RefEqLaxBytes(u.Elem))
	case "map":
		body = fmt.Sprintf("\tif a == nil || b == nil {\n\t\treturn a == nil && b == nil\n\t}\n\tif len(a) != len(b) {\n\t\treturn false\n\t}\n\tfor k, v := range a {\n\t\tw, ok := b[k]\n\t\tif !ok || !%s(v, w) {\n\t\t\treturn false\n\t\t}\n\t}\n\treturn true\n", g.RefEqLaxBytes(u.Elem))
	case "struct":
		var sb strings.Builder
		for _, f := range namedFields(u.Fields) {
			if f.T.K == "slice" && f.T.Elem.K == "basic" && f.T.Elem.Name == "uint8" {
				fmt.Fprintf(&sb, "\tif len(a.%s) != len(b.%s) {\n\t\treturn false\n\t}\n\tfor i := 0; i < len(a.%s); i++ {\n\t\tif a.%s[i] != b.%s[i] {\n\t\t\treturn false\n\t\t}\n\t}\n", f.Name, f.Name, f.Name, f.Name, f.Name)
				continue
			}
			fmt.Fprintf(&sb, "\tif !%s(a.%s, b.%s) {\n\t\treturn false\n\t}\n", g.RefEqLaxBytes(f.T), f.Name, f.Name)
		}
		sb.WriteString("\treturn true\n")
		body = sb.String()
	}
	g.funcs[name] = fmt.Sprintf("func %s(a, b %s) bool {\n%s}\n", name, t.Expr(), body)
	return name
}

// ----- C03 -----

func genC03(g *Gen, in Inst, tier string) []HarnessSrc {
	T := in.T
	g.declare(T)
	cmp := "deriveCompare" + in.ID
	eq := "deriveEqual" + in.ID
	diff := g.RefDiff(T)
	var out []HarnessSrc
	out = append(out, h("VX_C03_range_antisym_"+in.ID, "antisym", fmt.Sprintf(
		"\tx := %s\n\ty := %s\n\tc := %s(x, y)\n\tvx.Assert(c == -1 || c == 0 || c == 1, \"result in {-1,0,1}\")\n\tvx.Assert(c == -%s(y, x), \"antisymmetric\")\n",
		ndo(T, "x", recMapOpt(in)), ndo(T, "y", recMapOpt(in)), cmp, cmp)))
	out = append(out, h("VX_C03_eqlink_"+in.ID, "eqlink", fmt.Sprintf(
		"\tx := %s\n\ty := %s\n\tvx.Assert((%s(x, y) == 0) == %s(x, y), \"compare==0 iff equal\")\n",
		ndo(T, "x", recMapOpt(in)), ndo(T, "y", recMapOpt(in)), cmp, eq)))
	out = append(out, h("VX_C03_diff1_"+in.ID, "diff1", fmt.Sprintf(
		"\tx := %s\n\ty := %s\n\tn, s := %s(x, y)\n\tvx.Assume(n == 1 && !%s(x, y))\n\tvx.Assert(%s(x, y) == s, \"single difference ordered naturally\")\n",
		ndo(T, "x", recMapOpt(in)), ndo(T, "y", recMapOpt(in)), diff, eq, cmp)))
	out = append(out, h("VX_C03_trans_"+in.ID, "trans", fmt.Sprintf(
		"\tx := %s\n\ty := %s\n\tz := %s\n\tvx.Assume(%s(x, y) <= 0 && %s(y, z) <= 0)\n\tvx.Assert(%s(x, z) <= 0, \"transitive\")\n",
		ndo(T, "x", smallOpt(in)), ndo(T, "y", smallOpt(in)), ndo(T, "z", smallOpt(in)), cmp, cmp, cmp)))
	out = append(out, h("VX_C03_curried_"+in.ID, "curried", fmt.Sprintf(
		"\tx := %s\n\ty := %s\n\tvx.Assert(%sC(x)(y) == %s(x, y), \"curried form agrees\")\n", ndo(T, "x", recMapOpt(in)), ndo(T, "y", recMapOpt(in)), cmp, cmp)))
	// maps: one entry each, equal values, different keys = a single differing leaf: ordered by the keys (ordered by <)
	if T.K == "map" && T.Key.K == "basic" && T.Key.Name != "bool" && !strings.HasPrefix(T.Key.Name, "complex") {
		out = append(out, h("VX_C03_mapkey_"+in.ID, "mapkey", fmt.Sprintf(
			"\tx := %s\n\ty := %s\n\tvx.Assume(len(x) == 1 && len(y) == 1)\n\tvar kx, ky %s\n\tfor k := range x {\n\t\tkx = k\n\t}\n\tfor k := range y {\n\t\tky = k\n\t}\n\tvx.Assume(kx != ky && %s(x[kx], y[ky]))\n"+
				"\twant := 1\n\tif kx < ky {\n\t\twant = -1\n\t}\n\tvx.Assert(%s(x, y) == want, \"one entry each, different keys: ordered by the keys\")\n",
			ndo(T, "x", recMapOpt(in)), ndo(T, "y", recMapOpt(in)), T.Key.Expr(), g.RefEq(T.Elem), cmp)))
	}
	out = append(out, h("VX_TV_C03_"+in.ID, "tv", fmt.Sprintf(
		"\tx := %s\n\ty := %s\n\tvx.Observe(\"cmp\", %s(x, y))\n\tvx.Observe(\"cmpyx\", %s(y, x))\n", ndo(T, "x", recMapOpt(in)), ndo(T, "y", recMapOpt(in)), cmp, cmp)))
	return out
}

// ----- C04 -----

func genC04(g *Gen, in Inst, tier string) []HarnessSrc {
	T := in.T
	g.declare(T)
	hash := "deriveHash" + in.ID
	eq := "deriveEqual" + in.ID
	ref := g.RefEq(T)
	clone := g.RefClone(T)
	var out []HarnessSrc
	// L2: hash invariant under rebuild at fresh addresses / capacities / map orders
	out = append(out, h("VX_C04_rebuild_"+in.ID, "rebuild", fmt.Sprintf(
		"\tx := %s\n\ty := %s(x)\n\tvx.Assert(%s(x) == %s(y), \"hash(x) == hash(rebuild(x))\")\n", nd(T, "x"), clone, hash, hash)))
	// L3: repeatable (independent map orders) and argument unchanged
	out = append(out, h("VX_C04_repeat_"+in.ID, "repeat", fmt.Sprintf(
		"\tx := %s\n\tsnap := %s(x)\n\th1 := %s(x)\n\th2 := %s(x)\n\tvx.Assert(h1 == h2, \"hash repeatable\")\n\tvx.Assert(%s(x, snap), \"argument unchanged\")\n",
		nd(T, "x"), clone, hash, hash, ref)))
	if in.Tags["float"] {
		z := g.RefZClone(T)
		// (F3, repaired: these two were the twins that reported it)
		out = append(out, h("VX_C04_zero_"+in.ID, "zero", fmt.Sprintf(
			"\tx := %s\n\ty := %s(x)\n\tvx.Assume(%s(x, y))\n\tvx.Assert(%s(x) == %s(y), \"hash invariant under +0/-0\")\n", nd(T, "x"), z, eq, hash, hash)))
	}
	// direct statement on two independent values (small types only; bigger ones are covered by L1+L2)
	if in.Tags["float"] {
		// outside the F3 region (+0 vs -0): floats bit-identical
		bits := g.RefEqBits(T)
		out = append(out, h("VX_C04_direct_"+in.ID, "direct", fmt.Sprintf(
			"\tx := %s\n\ty := %s\n\tvx.Assume(%s(x, y))\n\tvx.Assume(%s(x, y))\n\tvx.Assert(%s(x) == %s(y), \"Equal implies same hash (floats bit-identical)\")\n",
			nd(T, "x"), nd(T, "y"), eq, bits, hash, hash)))
		out = append(out, h("VX_C04_directz_"+in.ID, "direct", fmt.Sprintf(
			"\tx := %s\n\ty := %s\n\tvx.Assume(%s(x, y))\n\tvx.Assume(%s(x, y))\n\tvx.Assert(%s(x) == %s(y), \"Equal implies same hash (+0 and -0 included)\")\n",
			nd(T, "x"), nd(T, "y"), eq, ref, hash, hash)))
	} else {
		out = append(out, h("VX_C04_direct_"+in.ID, "direct", fmt.Sprintf(
			"\tx := %s\n\ty := %s\n\tvx.Assume(%s(x, y))\n\tvx.Assume(%s(x, y))\n\tvx.Assert(%s(x) == %s(y), \"Equal implies same hash\")\n",
			nd(T, "x"), nd(T, "y"), eq, ref, hash, hash)))
	}
	// L1: premise coverage
	if in.Tags["bytes"] && isComponentBytes(T) {
		lax := g.RefEqLaxBytes(T)
		out = append(out, h("VX_C04_premise_"+in.ID, "premise", fmt.Sprintf(
			"\tx := %s\n\ty := %s\n\tvx.Assume(%s(x, y))\n\tvx.Assert(%s(x, y), \"Equal implies structurally equal up to nil/empty []byte fields\")\n",
			nd(T, "x"), nd(T, "y"), eq, lax)))
		kf := h("VX_C04_bytes_"+in.ID+"__KF_F2", "bytes", fmt.Sprintf(
			"\tx := %s\n\ty := %s\n\tvx.Assume(%s(x, y))\n\tvx.Assert(%s(x) == %s(y), \"Equal implies same hash (nil vs empty []byte field)\")\n",
			nd(T, "x"), nd(T, "y"), eq, hash, hash))
		kf.KF = "F2"
		out = append(out, kf)
	} else if in.Tags["float"] {
		// Equal identifies +0 and -0, the structural reference compares with == as well
		out = append(out, h("VX_C04_premise_"+in.ID, "premise", fmt.Sprintf(
			"\tx := %s\n\ty := %s\n\tvx.Assume(%s(x, y))\n\tvx.Assert(%s(x, y), \"Equal implies structurally equal\")\n",
			nd(T, "x"), nd(T, "y"), eq, ref)))
	} else {
		out = append(out, h("VX_C04_premise_"+in.ID, "premise", fmt.Sprintf(
			"\tx := %s\n\ty := %s\n\tvx.Assume(%s(x, y))\n\tvx.Assert(%s(x, y), \"Equal implies structurally equal\")\n",
			nd(T, "x"), nd(T, "y"), eq, ref)))
	}
	out = append(out, h("VX_TV_C04_"+in.ID, "tv", fmt.Sprintf("\tx := %s\n\tvx.Observe(\"hash\", %s(x))\n", nd(T, "x"), hash)))
	return out
}

// ----- C05 -----

func genC05(g *Gen, in Inst, tier string) []HarnessSrc {
	T := in.T
	g.declare(T)
	ref := g.RefEq(T)
	clone := g.RefClone(T)
	scr := g.RefScramble(T)
	var out []HarnessSrc
	dc := "deriveDeepCopy" + in.ID
	cl := "deriveClone" + in.ID
	// pointer form: dst, src *T' where T = *T' or we take &T
	if T.K == "ptr" {
		out = append(out, h("VX_C05_deepcopy_"+in.ID, "deepcopy", fmt.Sprintf(
			"\tsrc := %s\n\tdst := %s\n\tvx.Assume(src != nil && dst != nil)\n\tsnap := %s(src)\n\t%s(dst, src)\n"+
				"\tvx.Assert(%s(dst, src), \"copy equals source\")\n\tvx.Assert(%s(src, snap), \"source unchanged\")\n"+
				"\tdsnap := %s(dst)\n\t%s(&src)\n\tvx.Assert(%s(dst, dsnap), \"writes through source invisible in copy\")\n"+
				"\tssnap := %s(src)\n\t%s(&dst)\n\tvx.Assert(%s(src, ssnap), \"writes through copy invisible in source\")\n",
			ndo(T, "src", recMapOpt(in)), ndo(T, "dst", recMapOpt(in)), clone, dc, ref, ref, clone, scr, ref, clone, scr, ref)))
	} else {
		PT := Ptr(T)
		out = append(out, h("VX_C05_deepcopy_"+in.ID, "deepcopy", fmt.Sprintf(
			"\tsrcv := %s\n\tdstv := %s\n\tsrc, dst := &srcv, &dstv\n\tsnap := %s(srcv)\n\t%s(dst, src)\n"+
				"\tvx.Assert(%s(*dst, *src), \"copy equals source\")\n\tvx.Assert(%s(*src, snap), \"source unchanged\")\n"+
				"\tdsnap := %s(*dst)\n\t%s(src)\n\tvx.Assert(%s(*dst, dsnap), \"writes through source invisible in copy\")\n"+
				"\tssnap := %s(*src)\n\t%s(dst)\n\tvx.Assert(%s(*src, ssnap), \"writes through copy invisible in source\")\n",
			ndo(T, "src", recMapOpt(in)), ndo(T, "dst", recMapOpt(in)), clone, dc, ref, ref, clone, scr, ref, clone, scr, ref)))
		_ = PT
	}
	// clone
	out = append(out, h("VX_C05_clone_"+in.ID, "clone", fmt.Sprintf(
		"\tsrc := %s\n\tsnap := %s(src)\n\tdst := %s(src)\n"+
			"\tvx.Assert(%s(dst, src), \"clone equals source\")\n\tvx.Assert(%s(src, snap), \"source unchanged\")\n"+
			"\tdsnap := %s(dst)\n\t%s(&src)\n\tvx.Assert(%s(dst, dsnap), \"writes through source invisible in clone\")\n"+
			"\tssnap := %s(src)\n\t%s(&dst)\n\tvx.Assert(%s(src, ssnap), \"writes through clone invisible in source\")\n",
		ndo(T, "src", recMapOpt(in)), clone, cl, ref, ref, clone, scr, ref, clone, scr, ref)))
	// slice form (equal length) and map form (empty destination)
	if T.K == "slice" {
		out = append(out, h("VX_C05_slicecopy_"+in.ID, "slicecopy", fmt.Sprintf(
			"\tsrc := %s\n\tdst := %s\n\tvx.Assume(len(dst) == len(src) && src != nil && dst != nil)\n\tsnap := %s(src)\n\t%sS(dst, src)\n"+
				"\tvx.Assert(%s(dst, src), \"copy equals source\")\n\tvx.Assert(%s(src, snap), \"source unchanged\")\n"+
				"\tdsnap := %s(dst)\n\t%s(&src)\n\tvx.Assert(%s(dst, dsnap), \"writes through source invisible in copy\")\n",
			ndo(T, "src", recMapOpt(in)), ndo(T, "dst", recMapOpt(in)), clone, dc, ref, ref, clone, scr, ref)))
	}
	if T.K == "map" {
		out = append(out, h("VX_C05_mapcopy_"+in.ID, "mapcopy", fmt.Sprintf(
			"\tsrc := %s\n\tvx.Assume(src != nil)\n\tdst := make(%s)\n\tsnap := %s(src)\n\t%sM(dst, src)\n"+
				"\tvx.Assert(%s(dst, src), \"copy equals source\")\n\tvx.Assert(%s(src, snap), \"source unchanged\")\n"+
				"\tdsnap := %s(dst)\n\t%s(&src)\n\tvx.Assert(%s(dst, dsnap), \"writes through source invisible in copy\")\n",
			ndo(T, "src", recMapOpt(in)), T.Expr(), clone, dc, ref, ref, clone, scr, ref)))
	}
	out = append(out, h("VX_TV_C05_"+in.ID, "tv", fmt.Sprintf(
		"\tsrc := %s\n\tdst := %s(src)\n\tvx.Observe(\"cloneeq\", %s(dst, src))\n", ndo(T, "src", recMapOpt(in)), cl, ref)))
	return out
}

// RefEqBits: structural equality that compares float leaves by bit pattern (distinguishes +0 and -0).
func (g *Gen) RefEqBits(t *Ty) string {
	t = g.resolve(t)
	name := "refEqBits_" + t.Mangle()
	if _, ok := g.funcs[name]; ok {
		return name
	}
	g.funcs[name] = ""
	g.forder = append(g.forder, name)
	u := t
	if t.K == "named" {
		u = g.resolve(t.Under)
	}
	var body string
	switch u.K {
	case "basic":
		switch u.Name {
		case "float64":
			body = "\treturn math.Float64bits(float64(a)) == math.Float64bits(float64(b))\n"
		case "float32":
			body = "\treturn math.Float32bits(float32(a)) == math.Float32bits(float32(b))\n"
		case "complex128":
			body = "\treturn math.Float64bits(real(a)) == math.Float64bits(real(b)) && math.Float64bits(imag(a)) == math.Float64bits(imag(b))\n"
		case "complex64":
			body = "\treturn math.Float32bits(real(a)) == math.Float32bits(real(b)) && math.Float32bits(imag(a)) == math.Float32bits(imag(b))\n"
		default:
			body = "\treturn a == b\n"
		}
	case "ptr":
		body = fmt.Sprintf("\tif a == nil || b == nil {\n\t\treturn a == nil && b == nil\n\t}\n\treturn %s(*a, *b)\n", g.RefEqBits(u.Elem))
	case "slice":
		body = fmt.Sprintf("\tif a == nil || b == nil {\n\t\treturn a == nil && b == nil\n\t}\n\tif len(a) != len(b) {\n\t\treturn false\n\t}\n\tfor i := 0; i < len(a); i++ {\n\t\tif !%s(a[i], b[i]) {\n\t\t\treturn false\n\t\t}\n\t}\n\treturn true\n", g.RefEqBits(u.Elem))
	case "array":
		body = fmt.Sprintf("\tfor i := 0; i < len(a); i++ {\n\t\tif !%s(a[i], b[i]) {\n\t\t\treturn false\n\t\t}\n\t}\n\treturn true\n", g.RefEqBits(u.Elem))
	case "map":
		keyCheck := ""
		if u.Key.contains(func(x *Ty) bool {
			return x.K == "basic" && (strings.HasPrefix(x.Name, "float") || strings.HasPrefix(x.Name, "complex"))
		}) {
			keyCheck = fmt.Sprintf("\t\tfor k2 := range b {\n\t\t\tif k2 == k && !%s(k, k2) {\n\t\t\t\treturn false\n\t\t\t}\n\t\t}\n", g.RefEqBits(u.Key))
		}
		body = fmt.Sprintf("\tif a == nil || b == nil {\n\t\treturn a == nil && b == nil\n\t}\n\tif len(a) != len(b) {\n\t\treturn false\n\t}\n\tfor k, v := range a {\n\t\tw, ok := b[k]\n\t\tif !ok || !%s(v, w) {\n\t\t\treturn false\n\t\t}\n%s\t}\n\treturn true\n", g.RefEqBits(u.Elem), keyCheck)
	case "struct":
		var sb strings.Builder
		for _, f := range namedFields(u.Fields) {
			fmt.Fprintf(&sb, "\tif !%s(a.%s, b.%s) {\n\t\treturn false\n\t}\n", g.RefEqBits(f.T), f.Name, f.Name)
		}
		sb.WriteString("\treturn true\n")
		body = sb.String()
	}
	g.needMath = true
	g.funcs[name] = fmt.Sprintf("func %s(a, b %s) bool {\n%s}\n", name, t.Expr(), body)
	return name
}
