package main

// Fixture generator: a small type grammar, independent reference implementations
// (structural equality, clone, single-difference classifier, mutators) emitted as plain Go,
// and per-property harness templates.

import (
	"fmt"
	"sort"
	"strings"
)

type Fld struct {
	Name string
	T    *Ty
}

type Ty struct {
	K      string // basic | named | ref | ptr | slice | array | map | struct
	Name   string // basic: Go name; named/ref: declared name
	Under  *Ty    // named: underlying
	Elem   *Ty
	Key    *Ty
	N      int
	Fields []Fld
	// user-declared methods on a named struct (pointer receiver): "Equal", "Compare"
	UserEqual bool
	// user-declared Equal with a VALUE receiver and a value parameter (named struct: ignores the last field;
	// named integer: compares the lowest bit only), so that it differs from == although the type is comparable
	UserEqualVal bool
	// user-declared `Hash() int32` (pointer receiver) on a named struct: the low bits of its first field
	UserHash bool
}

func B(n string) *Ty                 { return &Ty{K: "basic", Name: n} }
func Named(n string, u *Ty) *Ty      { return &Ty{K: "named", Name: n, Under: u} }
func Ref(n string) *Ty               { return &Ty{K: "ref", Name: n} }
func Ptr(e *Ty) *Ty                  { return &Ty{K: "ptr", Elem: e} }
func Slice(e *Ty) *Ty                { return &Ty{K: "slice", Elem: e} }
func Array(n int, e *Ty) *Ty         { return &Ty{K: "array", N: n, Elem: e} }
func Map(k, e *Ty) *Ty               { return &Ty{K: "map", Key: k, Elem: e} }
func Struct(f ...Fld) *Ty            { return &Ty{K: "struct", Fields: f} }
func F(n string, t *Ty) Fld          { return Fld{n, t} }
func NStruct(n string, f ...Fld) *Ty { return Named(n, Struct(f...)) }

func (t *Ty) Expr() string {
	switch t.K {
	case "basic", "named", "ref":
		return t.Name
	case "ptr":
		return "*" + t.Elem.Expr()
	case "slice":
		return "[]" + t.Elem.Expr()
	case "array":
		return fmt.Sprintf("[%d]%s", t.N, t.Elem.Expr())
	case "map":
		return "map[" + t.Key.Expr() + "]" + t.Elem.Expr()
	case "struct":
		var sb strings.Builder
		sb.WriteString("struct{")
		for i, f := range t.Fields {
			if i > 0 {
				sb.WriteString("; ")
			}
			sb.WriteString(f.Name + " " + f.T.Expr())
		}
		sb.WriteString("}")
		return sb.String()
	}
	panic("Expr " + t.K)
}

func (t *Ty) Mangle() string {
	switch t.K {
	case "basic", "named", "ref":
		return t.Name
	case "ptr":
		return "P" + t.Elem.Mangle()
	case "slice":
		return "S" + t.Elem.Mangle()
	case "array":
		return fmt.Sprintf("A%d%s", t.N, t.Elem.Mangle())
	case "map":
		return "M" + t.Key.Mangle() + "_" + t.Elem.Mangle()
	case "struct":
		s := "St"
		for _, f := range t.Fields {
			s += f.Name + f.T.Mangle()
		}
		return s + "_"
	}
	panic("Mangle " + t.K)
}

// under resolves named types (but not refs, which are resolved through decls).
func (t *Ty) under(decls map[string]*Ty) *Ty {
	switch t.K {
	case "named":
		return t.Under.under(decls)
	case "ref":
		return decls[t.Name].under(decls)
	}
	return t
}

func (t *Ty) isFloat(decls map[string]*Ty) bool {
	u := t.under(decls)
	return u.K == "basic" && (u.Name == "float64" || u.Name == "float32")
}
func (t *Ty) isComplex(decls map[string]*Ty) bool {
	u := t.under(decls)
	return u.K == "basic" && (u.Name == "complex128" || u.Name == "complex64")
}
func (t *Ty) isBool(decls map[string]*Ty) bool {
	u := t.under(decls)
	return u.K == "basic" && u.Name == "bool"
}
func (t *Ty) isString(decls map[string]*Ty) bool {
	u := t.under(decls)
	return u.K == "basic" && u.Name == "string"
}

// hasKind reports whether the type tree (through named types, not through refs) contains a kind/basic.
func (t *Ty) walk(f func(*Ty)) {
	f(t)
	switch t.K {
	case "named":
		t.Under.walk(f)
	case "ptr", "slice", "array":
		t.Elem.walk(f)
	case "map":
		t.Key.walk(f)
		t.Elem.walk(f)
	case "struct":
		for _, fl := range t.Fields {
			fl.T.walk(f)
		}
	}
}

func (t *Ty) contains(pred func(*Ty) bool) bool {
	found := false
	t.walk(func(x *Ty) {
		if pred(x) {
			found = true
		}
	})
	return found
}

// Gen accumulates declarations and reference functions for one package.
type Gen struct {
	decls    map[string]*Ty // named type declarations
	order    []string
	funcs    map[string]string // function name -> source
	forder   []string
	methods  []string
	needMath bool
}

func NewGen() *Gen { return &Gen{decls: map[string]*Ty{}, funcs: map[string]string{}} }

func (g *Gen) declare(t *Ty) {
	t.walk(func(x *Ty) {
		if x.K == "named" {
			if _, ok := g.decls[x.Name]; !ok {
				g.decls[x.Name] = x
				g.order = append(g.order, x.Name)
			}
		}
	})
}

// namedFields: the fields a program can refer to (blank fields `_` are skipped: Go's == ignores them as well)
func namedFields(fs []Fld) []Fld {
	var out []Fld
	for _, f := range fs {
		if f.Name != "_" {
			out = append(out, f)
		}
	}
	return out
}

func (g *Gen) Decls() string {
	var sb strings.Builder
	for _, n := range g.order {
		d := g.decls[n]
		fmt.Fprintf(&sb, "type %s %s\n\n", n, d.Under.Expr())
		if d.UserEqual {
			// a user-declared Equal that ignores the last field
			st := d.Under
			var cs []string
			for i, f := range st.Fields {
				if i == len(st.Fields)-1 && len(st.Fields) > 1 {
					break
				}
				cs = append(cs, fmt.Sprintf("this.%s == that.%s", f.Name, f.Name))
			}
			fmt.Fprintf(&sb, "func (this *%s) Equal(that *%s) bool {\n\tif this == nil || that == nil {\n\t\treturn this == nil && that == nil\n\t}\n\treturn %s\n}\n\n", n, n, strings.Join(cs, " && "))
		}
		if d.UserHash {
			fmt.Fprintf(&sb, "func (this *%s) Hash() int32 {\n\tif this == nil {\n\t\treturn 0\n\t}\n\treturn int32(this.%s)\n}\n\n", n, d.Under.Fields[0].Name)
		}
		if d.UserEqualVal {
			if d.Under.K == "struct" {
				var cs []string
				for i, f := range d.Under.Fields {
					if i == len(d.Under.Fields)-1 && len(d.Under.Fields) > 1 {
						break
					}
					cs = append(cs, fmt.Sprintf("this.%s == that.%s", f.Name, f.Name))
				}
				fmt.Fprintf(&sb, "func (this %s) Equal(that %s) bool {\n\treturn %s\n}\n\n", n, n, strings.Join(cs, " && "))
			} else {
				fmt.Fprintf(&sb, "func (this %s) Equal(that %s) bool {\n\treturn this&1 == that&1\n}\n\n", n, n)
			}
		}
	}
	return sb.String()
}

func (g *Gen) addFunc(name, src string) {
	if _, ok := g.funcs[name]; ok {
		return
	}
	g.funcs[name] = src
	g.forder = append(g.forder, name)
}

func (g *Gen) Funcs() string {
	var sb strings.Builder
	names := append([]string{}, g.forder...)
	sort.Strings(names)
	for _, n := range names {
		sb.WriteString(g.funcs[n])
		sb.WriteString("\n")
	}
	return sb.String()
}

func (g *Gen) resolve(t *Ty) *Ty {
	if t.K == "ref" {
		return g.decls[t.Name]
	}
	return t
}

// ---------- refEq: structural equality ----------

func (g *Gen) RefEq(t *Ty) string {
	t = g.resolve(t)
	name := "refEq_" + t.Mangle()
	if _, ok := g.funcs[name]; ok {
		return name
	}
	g.funcs[name] = "" // reserve (recursion)
	g.forder = append(g.forder, name)
	var body string
	u := t
	if t.K == "named" {
		u = g.resolve(t.Under)
	}
	switch u.K {
	case "basic":
		body = "\treturn a == b\n"
		if t.K == "named" && t.UserEqualVal {
			body = "\treturn a.Equal(b)\n"
		}
	case "ptr":
		el := g.resolve(u.Elem)
		if el.K == "named" && el.UserEqual {
			body = "\treturn a.Equal(b)\n"
		} else {
			body = fmt.Sprintf("\tif a == nil || b == nil {\n\t\treturn a == nil && b == nil\n\t}\n\treturn %s(*a, *b)\n", g.RefEq(u.Elem))
		}
	case "slice":
		body = fmt.Sprintf("\tif a == nil || b == nil {\n\t\treturn a == nil && b == nil\n\t}\n\tif len(a) != len(b) {\n\t\treturn false\n\t}\n\tfor i := 0; i < len(a); i++ {\n\t\tif !%s(a[i], b[i]) {\n\t\t\treturn false\n\t\t}\n\t}\n\treturn true\n", g.RefEq(u.Elem))
	case "array":
		body = fmt.Sprintf("\tfor i := 0; i < len(a); i++ {\n\t\tif !%s(a[i], b[i]) {\n\t\t\treturn false\n\t\t}\n\t}\n\treturn true\n", g.RefEq(u.Elem))
	case "map":
		body = fmt.Sprintf("\tif a == nil || b == nil {\n\t\treturn a == nil && b == nil\n\t}\n\tif len(a) != len(b) {\n\t\treturn false\n\t}\n\tfor k, v := range a {\n\t\tw, ok := b[k]\n\t\tif !ok || !%s(v, w) {\n\t\t\treturn false\n\t\t}\n\t}\n\treturn true\n", g.RefEq(u.Elem))
	case "struct":
		if t.K == "named" && t.UserEqual {
			body = "\treturn (&a).Equal(&b)\n"
			break
		}
		if t.K == "named" && t.UserEqualVal {
			body = "\treturn a.Equal(b)\n"
			break
		}
		var sb strings.Builder
		for _, f := range namedFields(u.Fields) {
			fmt.Fprintf(&sb, "\tif !%s(a.%s, b.%s) {\n\t\treturn false\n\t}\n", g.RefEq(f.T), f.Name, f.Name)
		}
		sb.WriteString("\treturn true\n")
		body = sb.String()
	default:
		panic("RefEq " + u.K)
	}
	g.funcs[name] = fmt.Sprintf("func %s(a, b %s) bool {\n%s}\n", name, t.Expr(), body)
	return name
}

// ---------- refClone: independent deep copy (fresh addresses, cap==len) ----------

func (g *Gen) RefClone(t *Ty) string {
	t = g.resolve(t)
	name := "refClone_" + t.Mangle()
	if _, ok := g.funcs[name]; ok {
		return name
	}
	g.funcs[name] = ""
	g.forder = append(g.forder, name)
	u := t
	if t.K == "named" {
		u = g.resolve(t.Under)
	}
	var body string
	switch u.K {
	case "basic":
		body = "\treturn a\n"
	case "ptr":
		body = fmt.Sprintf("\tif a == nil {\n\t\treturn nil\n\t}\n\tv := %s(*a)\n\treturn &v\n", g.RefClone(u.Elem))
	case "slice":
		body = fmt.Sprintf("\tif a == nil {\n\t\treturn nil\n\t}\n\tout := make(%s, len(a))\n\tfor i := 0; i < len(a); i++ {\n\t\tout[i] = %s(a[i])\n\t}\n\treturn out\n", t.Expr(), g.RefClone(u.Elem))
	case "array":
		body = fmt.Sprintf("\tvar out %s\n\tfor i := 0; i < len(a); i++ {\n\t\tout[i] = %s(a[i])\n\t}\n\treturn out\n", t.Expr(), g.RefClone(u.Elem))
	case "map":
		body = fmt.Sprintf("\tif a == nil {\n\t\treturn nil\n\t}\n\tout := make(%s)\n\tfor k, v := range a {\n\t\tout[k] = %s(v)\n\t}\n\treturn out\n", t.Expr(), g.RefClone(u.Elem))
	case "struct":
		var sb strings.Builder
		fmt.Fprintf(&sb, "\tvar out %s\n", t.Expr())
		for _, f := range namedFields(u.Fields) {
			fmt.Fprintf(&sb, "\tout.%s = %s(a.%s)\n", f.Name, g.RefClone(f.T), f.Name)
		}
		sb.WriteString("\treturn out\n")
		body = sb.String()
	default:
		panic("RefClone " + u.K)
	}
	g.funcs[name] = fmt.Sprintf("func %s(a %s) %s {\n%s}\n", name, t.Expr(), t.Expr(), body)
	return name
}

// ---------- refZClone: clone that may flip the sign of zero float leaves (Equal-preserving rewrite) ----------

func (g *Gen) RefZClone(t *Ty) string {
	t = g.resolve(t)
	name := "refZClone_" + t.Mangle()
	if _, ok := g.funcs[name]; ok {
		return name
	}
	g.funcs[name] = ""
	g.forder = append(g.forder, name)
	u := t
	if t.K == "named" {
		u = g.resolve(t.Under)
	}
	var body string
	switch u.K {
	case "basic":
		switch u.Name {
		case "float64", "float32":
			body = "\tif a == 0 && vx.Nondet[bool](\"flipzero\") {\n\t\treturn -a\n\t}\n\treturn a\n"
		case "complex128", "complex64":
			body = "\tre, im := real(a), imag(a)\n\tif re == 0 && vx.Nondet[bool](\"flipzero\") {\n\t\tre = -re\n\t}\n\tif im == 0 && vx.Nondet[bool](\"flipzero\") {\n\t\tim = -im\n\t}\n\treturn " + t.Expr() + "(complex(re, im))\n"
		default:
			body = "\treturn a\n"
		}
	case "ptr":
		body = fmt.Sprintf("\tif a == nil {\n\t\treturn nil\n\t}\n\tv := %s(*a)\n\treturn &v\n", g.RefZClone(u.Elem))
	case "slice":
		body = fmt.Sprintf("\tif a == nil {\n\t\treturn nil\n\t}\n\tout := make(%s, len(a))\n\tfor i := 0; i < len(a); i++ {\n\t\tout[i] = %s(a[i])\n\t}\n\treturn out\n", t.Expr(), g.RefZClone(u.Elem))
	case "array":
		body = fmt.Sprintf("\tvar out %s\n\tfor i := 0; i < len(a); i++ {\n\t\tout[i] = %s(a[i])\n\t}\n\treturn out\n", t.Expr(), g.RefZClone(u.Elem))
	case "map":
		// keys are kept bit-identical: a map cannot hold +0 and -0 as distinct keys anyway
		body = fmt.Sprintf("\tif a == nil {\n\t\treturn nil\n\t}\n\tout := make(%s)\n\tfor k, v := range a {\n\t\tout[k] = %s(v)\n\t}\n\treturn out\n", t.Expr(), g.RefZClone(u.Elem))
	case "struct":
		var sb strings.Builder
		fmt.Fprintf(&sb, "\tvar out %s\n", t.Expr())
		for _, f := range namedFields(u.Fields) {
			fmt.Fprintf(&sb, "\tout.%s = %s(a.%s)\n", f.Name, g.RefZClone(f.T), f.Name)
		}
		sb.WriteString("\treturn out\n")
		body = sb.String()
	default:
		panic("RefZClone " + u.K)
	}
	g.funcs[name] = fmt.Sprintf("func %s(a %s) %s {\n%s}\n", name, t.Expr(), t.Expr(), body)
	return name
}

// ---------- refDiff: count differing positions and the sign of the (last) difference ----------
//
// refDiff_T(a, b) returns (n, sign): n is the number of positions (leaves, or nil-ness of a
// pointer/slice/map) at which a and b differ, counting any difference in length or key set as 2
// ("not a single-position difference"); sign is the natural order at the differing position
// (false<true, numeric <, byte-wise strings, real before imaginary, nil first).

func (g *Gen) RefDiff(t *Ty) string {
	t = g.resolve(t)
	name := "refDiff_" + t.Mangle()
	if _, ok := g.funcs[name]; ok {
		return name
	}
	g.funcs[name] = ""
	g.forder = append(g.forder, name)
	u := t
	if t.K == "named" {
		u = g.resolve(t.Under)
	}
	var body string
	nilcase := "\tif a == nil && b == nil {\n\t\treturn 0, 0\n\t}\n\tif a == nil {\n\t\treturn 1, -1\n\t}\n\tif b == nil {\n\t\treturn 1, 1\n\t}\n"
	switch u.K {
	case "basic":
		switch u.Name {
		case "bool":
			body = "\tif a == b {\n\t\treturn 0, 0\n\t}\n\tif b {\n\t\treturn 1, -1\n\t}\n\treturn 1, 1\n"
		case "complex128", "complex64":
			body = "\tif real(a) != real(b) {\n\t\tif imag(a) != imag(b) {\n\t\t\treturn 2, 0\n\t\t}\n\t\tif real(a) < real(b) {\n\t\t\treturn 1, -1\n\t\t}\n\t\treturn 1, 1\n\t}\n\tif imag(a) != imag(b) {\n\t\tif imag(a) < imag(b) {\n\t\t\treturn 1, -1\n\t\t}\n\t\treturn 1, 1\n\t}\n\treturn 0, 0\n"
		default:
			body = "\tif a == b {\n\t\treturn 0, 0\n\t}\n\tif a < b {\n\t\treturn 1, -1\n\t}\n\treturn 1, 1\n"
		}
	case "ptr":
		body = nilcase + fmt.Sprintf("\treturn %s(*a, *b)\n", g.RefDiff(u.Elem))
	case "slice":
		body = nilcase + fmt.Sprintf("\tif len(a) != len(b) {\n\t\treturn 2, 0\n\t}\n\tn, s := 0, 0\n\tfor i := 0; i < len(a); i++ {\n\t\tdn, ds := %s(a[i], b[i])\n\t\tif dn != 0 {\n\t\t\tn += dn\n\t\t\ts = ds\n\t\t}\n\t}\n\treturn n, s\n", g.RefDiff(u.Elem))
	case "array":
		body = fmt.Sprintf("\tn, s := 0, 0\n\tfor i := 0; i < len(a); i++ {\n\t\tdn, ds := %s(a[i], b[i])\n\t\tif dn != 0 {\n\t\t\tn += dn\n\t\t\ts = ds\n\t\t}\n\t}\n\treturn n, s\n", g.RefDiff(u.Elem))
	case "map":
		body = nilcase + fmt.Sprintf("\tif len(a) != len(b) {\n\t\treturn 2, 0\n\t}\n\tn, s := 0, 0\n\tfor k, v := range a {\n\t\tw, ok := b[k]\n\t\tif !ok {\n\t\t\treturn 2, 0\n\t\t}\n\t\tdn, ds := %s(v, w)\n\t\tif dn != 0 {\n\t\t\tn += dn\n\t\t\ts = ds\n\t\t}\n\t}\n\treturn n, s\n", g.RefDiff(u.Elem))
	case "struct":
		var sb strings.Builder
		sb.WriteString("\tn, s := 0, 0\n")
		for _, f := range namedFields(u.Fields) {
			fmt.Fprintf(&sb, "\tif dn, ds := %s(a.%s, b.%s); dn != 0 {\n\t\tn += dn\n\t\ts = ds\n\t}\n", g.RefDiff(f.T), f.Name, f.Name)
		}
		sb.WriteString("\treturn n, s\n")
		body = sb.String()
	default:
		panic("RefDiff " + u.K)
	}
	g.funcs[name] = fmt.Sprintf("func %s(a, b %s) (int, int) {\n%s}\n", name, t.Expr(), body)
	return name
}

// ---------- refScramble: overwrite every mutable location reachable from a value ----------
//
// refScramble_T(p *T) changes every leaf reachable from *p (through every pointer, every slice
// element including spare capacity, every map entry) to a different value, and inserts a fresh
// entry into every map, without otherwise changing the shape. Used to show that a copy shares no
// memory with its source: any shared location would make the change visible on the other side.

func (g *Gen) RefScramble(t *Ty) string {
	t = g.resolve(t)
	name := "refScramble_" + t.Mangle()
	if _, ok := g.funcs[name]; ok {
		return name
	}
	g.funcs[name] = ""
	g.forder = append(g.forder, name)
	u := t
	if t.K == "named" {
		u = g.resolve(t.Under)
	}
	var body string
	switch u.K {
	case "basic":
		switch u.Name {
		case "bool":
			body = "\t*p = !*p\n"
		case "string":
			body = "\t*p = *p + \"!\"\n"
		case "float64", "float32":
			body = "\tif *p == 0 {\n\t\t*p = 1\n\t} else {\n\t\t*p = -*p\n\t}\n"
		case "complex128", "complex64":
			body = "\tif *p == 0 {\n\t\t*p = 1\n\t} else {\n\t\t*p = -*p\n\t}\n"
		default:
			body = "\t*p = *p + 1\n"
		}
	case "ptr":
		body = fmt.Sprintf("\tif *p != nil {\n\t\t%s(*p)\n\t}\n", g.RefScramble(u.Elem))
	case "slice":
		body = fmt.Sprintf("\tfull := (*p)[:cap(*p)]\n\tfor i := 0; i < len(full); i++ {\n\t\t%s(&full[i])\n\t}\n", g.RefScramble(u.Elem))
	case "array":
		body = fmt.Sprintf("\tfor i := 0; i < len(*p); i++ {\n\t\t%s(&(*p)[i])\n\t}\n", g.RefScramble(u.Elem))
	case "map":
		body = fmt.Sprintf("\tif *p == nil {\n\t\treturn\n\t}\n\tfor k, v := range *p {\n\t\t%s(&v)\n\t\t(*p)[k] = v\n\t}\n\tvar zv %s\n\t(*p)[vx.Nondet[%s](\"scramblekey_%s\")] = zv\n",
			g.RefScramble(u.Elem), u.Elem.Expr(), u.Key.Expr(), u.Key.Mangle())
	case "struct":
		var sb strings.Builder
		for _, f := range namedFields(u.Fields) {
			fmt.Fprintf(&sb, "\t%s(&p.%s)\n", g.RefScramble(f.T), f.Name)
		}
		body = sb.String()
	default:
		panic("RefScramble " + u.K)
	}
	g.funcs[name] = fmt.Sprintf("func %s(p *%s) {\n%s}\n", name, t.Expr(), body)
	return name
}
