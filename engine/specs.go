package main

import "time"

func propSpecs() map[string]*PropSpec {
	quickBounds := func(tier string) Bounds {
		b := DefaultBounds
		if tier == "thorough" {
			b.SliceLen, b.SpareCap, b.MapLen, b.StrLen, b.PtrDepth = 3, 2, 3, 3, 2
		}
		return b
	}
	tmo := func(tier string) time.Duration {
		if tier == "thorough" {
			return 300 * time.Second
		}
		return 60 * time.Second
	}
	m := map[string]*PropSpec{}
	add := func(p *PropSpec) {
		if p.Bounds == nil {
			p.Bounds = quickBounds
		}
		if p.Timeout == nil {
			p.Timeout = tmo
		}
		m[p.ID] = p
	}
	add(&PropSpec{ID: "C02", Title: "Derived Equal is exactly structural equality", Gen: genC02,
		Outside: []string{"NaN", "cyclic values", "imported structs with unexported fields (reflect/unsafe path)", "values larger than the bounds"}})
	add(&PropSpec{ID: "C03", Title: "Derived Compare is a total order consistent with Equal", Gen: genC03,
		Outside: []string{"NaN", "cyclic values", "reflect/unsafe path", "values larger than the bounds"}})
	add(&PropSpec{ID: "C04", Title: "Derived Hash respects Equal", Gen: genC04,
		Outside: []string{"NaN", "cyclic values", "reflect/unsafe path", "values larger than the bounds", "hashing across processes other than through map iteration order"}})
	add(&PropSpec{ID: "C05", Title: "DeepCopy and Clone produce an equal, fully independent copy", Gen: genC05,
		Outside: []string{"cyclic values", "destinations sharing memory with the source", "reflect/unsafe path"}})
	return m
}
