package main

import (
	"os"
	"path/filepath"
	"strings"
	"time"
)

// nestDepth: number of pointer/slice/array/map constructors on the deepest path.
func nestDepth(t *Ty) int {
	switch t.K {
	case "ptr", "slice", "array":
		return 1 + nestDepth(t.Elem)
	case "map":
		a, b := nestDepth(t.Key), nestDepth(t.Elem)
		if a > b {
			return 1 + a
		}
		return 1 + b
	case "named":
		return nestDepth(t.Under)
	case "struct":
		m := 0
		for _, f := range t.Fields {
			if d := nestDepth(f.T); d > m {
				m = d
			}
		}
		return m
	}
	return 0
}

// directMapField: a named struct with a map field whose key and value are basic types.
func directMapField(n *Ty) bool {
	if n.Under == nil || n.Under.K != "struct" {
		return false
	}
	ok := false
	for _, f := range n.Under.Fields {
		if f.T.K == "map" {
			if f.T.Elem.K != "basic" {
				return false
			}
			ok = true
		} else if f.T.contains(func(x *Ty) bool { return x.K == "map" }) {
			return false
		}
	}
	return ok
}

// reflPath: the reflect+unsafe access path for unexported fields of imported structs (static fixture
// harness/static/reflpath), decided for the property's own harnesses.
func reflPath(id string) func(r *Runner) {
	return func(r *Runner) {
		b := DefaultBounds
		r.modeStatic("static", "reflpath", "^VX_"+id+"_refl_", b, false, nil)
	}
}

// quickCorpus: C03 and C04 explore the quick corpus on both tiers (the thorough tier deepens the value bounds
// only): over the 229 thorough types a calibration run did not finish C03 within an hour.
func quickCorpus(tier string, seed int64) []Inst { return Corpus("quick", seed) }

func propSpecs() map[string]*PropSpec {
	quickBounds := func(tier string) Bounds {
		b := DefaultBounds
		if tier == "thorough" {
			b.SliceLen, b.SpareCap, b.MapLen, b.StrLen, b.PtrDepth, b.Unwind = 3, 2, 2, 3, 2, 12
		}
		return b
	}
	tmo := func(tier string) time.Duration {
		if tier == "thorough" {
			return 100 * time.Second
		}
		return 60 * time.Second
	}
	m := map[string]*PropSpec{}
	add := func(p *PropSpec) {
		if p.Bounds == nil {
			p.Bounds = quickBounds
		}
		if p.Timeout == nil {
			p.Timeout = tmo
		}
		m[p.ID] = p
	}
	add(&PropSpec{ID: "C02", Extra: reflPath("C02"), Title: "Derived Equal is exactly structural equality", Gen: genC02,
		Outside: []string{"NaN", "cyclic values", "reflect/unsafe path for unexported fields of imported structs beyond the one fixture harness/static/reflpath", "values larger than the bounds"}})
	add(&PropSpec{ID: "C03", Extra: reflPath("C03"), Corpus: quickCorpus, Title: "Derived Compare is a total order consistent with Equal", Gen: genC03,
		Filter: func(in Inst, tier string) bool {
			// maps keyed by complex numbers: sorting keys through the generated complex Compare under a symbolic
			// iteration order does not finish within the solver budget (complex leaves, slices and map VALUES are
			// covered; the key path is covered by C04's harnesses over map[complex128]int)
			if in.T.contains(func(x *Ty) bool { return x.K == "map" && x.Key.K == "basic" && strings.HasPrefix(x.Key.Name, "complex") }) {
				return false
			}
			return !in.Tags["userEqual"]
		},
		SkipKind: func(in Inst, kind, tier string) bool {
			// three-value transitivity over map-containing types needs minutes per query (sorted keys of three maps
			// under independent iteration orders): outside both tiers; a thorough calibration run spent its whole
			// hour on them
			return kind == "trans" && in.Tags["map"]
		},
		Outside: []string{"NaN", "cyclic values", "maps keyed by complex numbers", "three-value transitivity over types that contain a map", "reflect/unsafe path for unexported fields of imported structs beyond the one fixture harness/static/reflpath", "values larger than the bounds"}})
	add(&PropSpec{ID: "C04", Extra: reflPath("C04"), Corpus: quickCorpus, Title: "Derived Hash respects Equal", Gen: genC04, AbstractMul: true,
		SkipKind: func(in Inst, kind, tier string) bool {
			// the two-independent-values form over nested containers of string-bearing structs needs minutes;
			// those shapes are covered by premise + rebuild (shared leaves) instead
			if kind == "direct" && in.Tags["map"] && in.T.K != "map" {
				return true // a map inside a struct: two independent values need minutes; covered by premise + rebuild
			}
			return kind == "direct" && in.Tags["string"] && nestDepth(in.T) >= 3
		},
		Filter: func(in Inst, tier string) bool {
			if in.Tags["userEqual"] {
				return false // a user Equal that ignores a field cannot be matched by a derived Hash
			}
			// maps nested inside other containers need minutes per hash query (sorted keys under independent
			// iteration orders feeding 31*h+x chains): outside the registered bounds of both tiers
			if in.Tags["map"] && in.T.K != "map" && !(in.T.K == "ptr" && in.T.Elem.K == "named" && directMapField(in.T.Elem)) {
				return false
			}
			if in.T.K == "map" && in.T.Elem.contains(func(x *Ty) bool { return x.K == "map" || x.K == "slice" }) {
				return false
			}
			if tier == "quick" && in.T.K == "map" {
				// quick: maps with scalar keys and scalar values only
				simple := func(t *Ty) bool {
					return !t.contains(func(x *Ty) bool {
						return x.K == "struct" || x.K == "ptr" || (x.K == "basic" && strings.HasPrefix(x.Name, "complex"))
					})
				}
				complexKey := in.T.Key.K == "basic" && strings.HasPrefix(in.T.Key.Name, "complex")
				if !(simple(in.T.Key) || complexKey) || !simple(in.T.Elem) || in.T.Elem.K == "array" {
					return false
				}
			}
			return true
		},
		Outside: []string{"NaN", "cyclic values", "reflect/unsafe path for unexported fields of imported structs beyond the one fixture harness/static/reflpath", "values larger than the bounds", "hashing across processes other than through map iteration order"}})
	add(&PropSpec{ID: "C05", Extra: reflPath("C05"), Title: "DeepCopy and Clone produce an equal, fully independent copy", Gen: genC05,
		Outside: []string{"cyclic values", "destinations sharing memory with the source", "reflect/unsafe path for unexported fields of imported structs beyond the one fixture harness/static/reflpath"}})
	elemInsts := func(tier string, seed int64) []Inst {
		var out []Inst
		for _, e := range elemCorpus(tier) {
			out = append(out, Inst{ID: e.ID, T: e.E, Tags: e.Tags})
		}
		return out
	}
	elemGen := func(f func(g *Gen, e ElemInst, tier string) []HarnessSrc) PropGen {
		return func(g *Gen, in Inst, tier string) []HarnessSrc {
			for _, e := range elemCorpus(tier) {
				if e.ID == in.ID {
					return f(g, e, tier)
				}
			}
			return nil
		}
	}
	add(&PropSpec{ID: "C13", Title: "Ordering helpers: Sort, Keys, Min, Max", Gen: elemGen(genC13Elem), Corpus: elemInsts, PkgSize: 2,
		Outside: []string{"NaN", "lists longer than the bound", "sort.Slice beyond 12 elements (different algorithm)"}})
	add(&PropSpec{ID: "C14", Title: "Set and list helpers", Gen: elemGen(genC14Elem), Corpus: elemInsts, PkgSize: 2,
		Outside: []string{"NaN", "lists longer than the bound"}})
	add(&PropSpec{ID: "C11", Title: "Name conflicts and duplicates are detected exactly and resolved soundly", Level: "model_checking",
		Outside: []string{"more than 4 derive calls per plugin", "end to end (finder, AST rewrite, type-check) only on the one hand-written package of harness/static/c11e2e", "argument types of which one is assignable to another but not conversely"},
		RunFn: func(r *Runner) {
			f := "^VX_C11_(register_K[23]|oneway_K[23])(__KF_.*)?$"
			if r.Tier == "thorough" {
				f = "^VX_C11_(register|oneway)_"
			}
			r.modeB("derive", f, true, DefaultBounds)
			// end to end through the finder, the AST rewrite and the type checker (mode A on a hand-written fixture)
			r.modeStatic("static", "c11e2e", "^VX_C11_e2e_", DefaultBounds, false, func(rel string, fp *FixPkg) { c11EndToEnd(r, rel, fp) })
		}})
	add(&PropSpec{ID: "C08", Title: "Generation is deterministic and independent of invocation context", Level: "other",
		Outside: []string{"invocation context: other packages named in the same run, argument order, path spelling (go/loader behaviour)", "the text of generated function bodies (compared byte for byte only on the 6 repeat-run fixtures)", "more than 3 operations per table"},
		RunFn: func(r *Runner) {
			r.modeB("derive", "^VX_C08_", true, DefaultBounds)
			c08Repeat(r)
		}})
	add(&PropSpec{ID: "C12", Title: "Prefix customisation only renames", Level: "other",
		Outside: []string{"textual identity of the output under -prefix", "more than 4 plugins / prefixes outside the alphabet"},
		RunFn: func(r *Runner) {
			f := "^VX_C12_dispatch_N[23]$"
			if r.Tier == "thorough" {
				f = "^VX_C12_"
			}
			r.modeB("derive", f, true, DefaultBounds)
			b := DefaultBounds
			b.Unwind = 40
			// main() cannot be replayed natively under `go test` (it parses the test binary's flags and calls the real
			// loader): counterexamples of the main_* harnesses are confirmed through the public API instead
			// differential: the same package generated with default prefixes and again with -prefix=gen
			r.modeStatic("static", "c12diff", "^VX_C12_diff_", DefaultBounds, false, func(rel string, fp *FixPkg) {
				dir := filepath.Join(r.S.Repo, rel)
				os.Remove(filepath.Join(dir, "zz_replay_test.go"))
				r.S.runGoderive(fp)
				if !fp.GenOK {
					return
				}
				os.Rename(filepath.Join(dir, "derived.gen.go"), filepath.Join(dir, "zz_default.go"))
				data, _ := os.ReadFile(filepath.Join(dir, "h.go.second"))
				os.WriteFile(filepath.Join(dir, "h.go"), data, 0o644)
				os.WriteFile(filepath.Join(dir, "zz_replay_test.go"), []byte("package c12diff\n\nimport (\n\t\"testing\"\n\n\t\"github.com/awalterschulze/goderive/vxlib/vx\"\n)\n\nfunc TestVXReplay(t *testing.T) {\n\tvx.Replay(t, map[string]func(){\"VX_C12_diff_equal\": VX_C12_diff_equal, \"VX_C12_diff_compare\": VX_C12_diff_compare, \"VX_C12_diff_hash\": VX_C12_diff_hash, \"VX_C12_diff_deepcopy\": VX_C12_diff_deepcopy, \"VX_C12_diff_nested\": VX_C12_diff_nested})\n}\n"), 0o644)
				fp.GenOut, fp.GenCode, fp.GenOK = "", 0, false
				r.S.runGoderive(fp, "-prefix=gen")
			})
			r.ReplayOverride = func(hr *HarnessResult) string { return c12PublicAPI(r, hr.Name) }
			r.modeB(".", "^VX_C12_main_", true, b, "derive")
			r.ReplayOverride = nil
		}})
	concBounds := Bounds{SliceLen: 2, SpareCap: 0, MapLen: 1, StrLen: 1, PtrDepth: 1, Unwind: 7, CallDepth: 4}
	add(&PropSpec{ID: "C20", Title: "Do runs all functions concurrently and returns every result and an error", Level: "model_checking",
		Outside: []string{"more than 3 functions", "functions that communicate against spawn order", "stores by the caller to shared cells after a goroutine was spawned"},
		RunFn:   func(r *Runner) { r.modeC("c20", "^VX_C20_", concBounds) }})
	add(&PropSpec{ID: "C19", Title: "Channel combinators deliver every item exactly once under all schedules", Level: "model_checking",
		Outside: []string{"more than 2 input channels x 2 items", "capacities above 1", "select with send cases or default"},
		RunFn: func(r *Runner) {
			r.modeC("c19", "^VX_C19_(fmap|dup|join)", concBounds)
			pb := concBounds
			pb.Unwind = 4 // two items and the close: more iterations would spawn goroutines on infeasible paths
			r.modeC("c19", "^VX_C19_pipeline", pb)
		}})
	add(&PropSpec{ID: "C07", Title: "Regeneration depends only on current sources, not on the old derived file", Level: "other",
		Outside: []string{"every byte offset k of an interrupted write (three truncation points are replayed)", "edit sequences other than the listed histories", "go/loader and go/parser behaviour on arbitrary broken files"},
		Bounds:  func(tier string) Bounds { return DefaultBounds }, // the histories are the quantifier here; value bounds stay at the quick setting
		RunFn:   runC07})
	add(&PropSpec{ID: "C10", Title: "User source files are left intact", Level: "other",
		Outside: []string{"that go/format reproduces every declaration and comment (go/format behaviour)", "file systems without POSIX open/write semantics", "load errors"},
		RunFn:   runC10})
	add(&PropSpec{ID: "C09", Title: "Every run ends cleanly: success, or a diagnostic, never a crash or bad file", Level: "other",
		Outside: []string{"termination and absence of Go panics for every input program", "well-formedness of emitted text in general", "diagnostic wording"},
		RunFn:   runC09})
	add(&PropSpec{ID: "C01", Title: "Successful generation yields a complete, type-correct package", Level: "other",
		Outside: []string{"type-checks for EVERY program: only the corpus instantiations are generated and type-checked", "reflect/unsafe access path for unexported fields of imported structs"},
		RunFn: func(r *Runner) {
			// K = 3 exists as a harness (VX_C01_nametable_K3) but is not registered on either tier: a thorough
			// calibration run left 5161 of its obligations undecided after 20 minutes of solving
			f := "^VX_C01_.*_K2$"
			r.modeB("derive", f, true, DefaultBounds)
			// call-site forms and imported same-named packages (mode A on a hand-written fixture)
			r.modeStatic("static", "c01forms", "^VX_C01_form_", DefaultBounds, false, func(rel string, fp *FixPkg) {
				r.S.runGoderive(fp)
				if fp.GenOK {
					// the _test file form: the package must compile together with its tests
					if out, code, _ := runCmd(r.S.Repo, goEnv(), 3*time.Minute, "go", "vet", "./"+rel); code != 0 {
						fp.GenOK = false
						fp.GenOut = "TYPECHECK: " + out
					}
				}
			})
		}})
	caseSpec := func(id, title string, f func(tier string) []CaseInst, outside []string) {
		add(&PropSpec{ID: id, Title: title, PkgSize: 1, Outside: outside,
			Corpus: func(tier string, seed int64) []Inst { return caseInsts(f(tier))(tier, seed) },
			Gen:    func(g *Gen, in Inst, tier string) []HarnessSrc { return caseGen(f(tier))(g, in, tier) }})
	}
	caseSpec("C15", "Curry, Uncurry, Flip, Apply, Tuple only re-plumb arguments", c15CaseInsts, []string{"variadic signatures", "signatures outside the listed corpus"})
	caseSpec("C16", "Error-propagating helpers stop at, and return, the first error", c16CaseInsts, []string{"chains longer than 4 stages", "interface-typed results"})
	caseSpec("C17", "Fmap and Join over slices and strings", c17CaseInsts, []string{"strings longer than 4 bytes", "lists longer than the bound"})
	defer func() { m["C18"].AbstractMul = true; m["C14"].AbstractMul = true }()
	defer func() {
		// C17: Join over three inner lists of up to three elements compares up to nine output elements
		m["C17"].Bounds = func(tier string) Bounds {
			b := DefaultBounds
			b.Unwind = 10
			if tier == "thorough" {
				b.Unwind = 12
			}
			return b
		}
	}()
	caseSpec("C18", "Mem is observationally the original function, evaluated once per argument", c18CaseInsts, []string{"call sequences longer than 3", "float arguments (== identifies +0/-0 which f may distinguish)"})
	return m
}
