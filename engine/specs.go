package main

import "time"

func propSpecs() map[string]*PropSpec {
	quickBounds := func(tier string) Bounds {
		b := DefaultBounds
		if tier == "thorough" {
			b.SliceLen, b.SpareCap, b.MapLen, b.StrLen, b.PtrDepth = 3, 2, 3, 3, 2
		}
		return b
	}
	tmo := func(tier string) time.Duration {
		if tier == "thorough" {
			return 300 * time.Second
		}
		return 60 * time.Second
	}
	m := map[string]*PropSpec{}
	add := func(p *PropSpec) {
		if p.Bounds == nil {
			p.Bounds = quickBounds
		}
		if p.Timeout == nil {
			p.Timeout = tmo
		}
		m[p.ID] = p
	}
	add(&PropSpec{ID: "C02", Title: "Derived Equal is exactly structural equality", Gen: genC02,
		Outside: []string{"NaN", "cyclic values", "imported structs with unexported fields (reflect/unsafe path)", "values larger than the bounds"}})
	add(&PropSpec{ID: "C03", Title: "Derived Compare is a total order consistent with Equal", Gen: genC03,
		Filter: func(in Inst, tier string) bool { return !in.Tags["userEqual"] },
		SkipKind: func(in Inst, kind, tier string) bool {
			// three-value transitivity over map-containing types needs minutes per query: thorough tier only
			return tier == "quick" && kind == "trans" && in.Tags["map"]
		},
		Outside: []string{"NaN", "cyclic values", "reflect/unsafe path", "values larger than the bounds"}})
	add(&PropSpec{ID: "C04", Title: "Derived Hash respects Equal", Gen: genC04,
		Outside: []string{"NaN", "cyclic values", "reflect/unsafe path", "values larger than the bounds", "hashing across processes other than through map iteration order"}})
	add(&PropSpec{ID: "C05", Title: "DeepCopy and Clone produce an equal, fully independent copy", Gen: genC05,
		Outside: []string{"cyclic values", "destinations sharing memory with the source", "reflect/unsafe path"}})
	elemInsts := func(tier string, seed int64) []Inst {
		var out []Inst
		for _, e := range elemCorpus(tier) {
			out = append(out, Inst{ID: e.ID, T: e.E, Tags: e.Tags})
		}
		return out
	}
	elemGen := func(f func(g *Gen, e ElemInst, tier string) []HarnessSrc) PropGen {
		return func(g *Gen, in Inst, tier string) []HarnessSrc {
			for _, e := range elemCorpus(tier) {
				if e.ID == in.ID {
					return f(g, e, tier)
				}
			}
			return nil
		}
	}
	add(&PropSpec{ID: "C13", Title: "Ordering helpers: Sort, Keys, Min, Max", Gen: elemGen(genC13Elem), Corpus: elemInsts, PkgSize: 2,
		Outside: []string{"NaN", "lists longer than the bound", "sort.Slice beyond 12 elements (different algorithm)"}})
	add(&PropSpec{ID: "C14", Title: "Set and list helpers", Gen: elemGen(genC14Elem), Corpus: elemInsts, PkgSize: 2,
		Outside: []string{"NaN", "lists longer than the bound"}})
	return m
}
