package main

import (
	"fmt"
	"go/constant"
	"go/types"
	"math"
	"strings"

	"golang.org/x/tools/go/ssa"
)

func constBool(c *ssa.Const) bool     { return constant.BoolVal(c.Value) }
func constString(c *ssa.Const) string { return constant.StringVal(c.Value) }
func constBits(c *ssa.Const) uint64 {
	v := constant.ToInt(c.Value)
	if i, ok := constant.Int64Val(v); ok {
		return uint64(i)
	}
	if u, ok := constant.Uint64Val(v); ok {
		return u
	}
	panic(unsupported("integer constant out of range"))
}
func constFloatBits(c *ssa.Const, w int) uint64 {
	f, _ := constant.Float64Val(constant.ToFloat(c.Value))
	if w == 32 {
		return uint64(math.Float32bits(float32(f)))
	}
	return math.Float64bits(f)
}
func constComplexBits(c *ssa.Const, w int) (uint64, uint64) {
	v := constant.ToComplex(c.Value)
	re, _ := constant.Float64Val(constant.Real(v))
	im, _ := constant.Float64Val(constant.Imag(v))
	if w == 32 {
		return uint64(math.Float32bits(float32(re))), uint64(math.Float32bits(float32(im)))
	}
	return math.Float64bits(re), math.Float64bits(im)
}

func (ex *Exec) mergeHeap(g *Term, a, b Heap) Heap {
	out := copyHeap(b)
	for o, v := range a {
		cur, ok := out[o]
		if !ok {
			out[o] = v
		} else if cur != v {
			out[o] = ex.merge(g, v, cur)
		}
	}
	return out
}

func isVxPkg(p *ssa.Package) bool {
	return p != nil && strings.HasSuffix(p.Pkg.Path(), "/vxlib/vx")
}

func stubName(full string) string {
	var sb strings.Builder
	sb.WriteString("Stub_")
	for _, c := range full {
		if c >= 'a' && c <= 'z' || c >= 'A' && c <= 'Z' || c >= '0' && c <= '9' {
			sb.WriteRune(c)
		} else if c == '.' || c == '/' {
			sb.WriteByte('_')
		}
	}
	return sb.String()
}

func (ex *Exec) vxFunc(name string) *ssa.Function {
	if f, ok := ex.stubs[name]; ok {
		return f
	}
	var f *ssa.Function
	for _, p := range ex.prog.AllPackages() {
		if isVxPkg(p) {
			f = p.Func(name)
		}
	}
	ex.stubs[name] = f
	return f
}

// doCall performs a call instruction (or deferred call).
func (fr *Frame) doCall(call *ssa.CallCommon, fv Value, args []Value, in ssa.Instruction) Value {
	ex := fr.ex
	ts := ex.ts
	if b, ok := call.Value.(*ssa.Builtin); ok && !call.IsInvoke() {
		return fr.builtin(b, call, args, in)
	}
	if ex.isHavocSite(fr) {
		lib := false
		what := ""
		if call.IsInvoke() {
			lib = call.Method.Pkg() != nil && !strings.Contains(call.Method.Pkg().Path(), ".")
			what = call.Method.Name()
		} else if sc := call.StaticCallee(); sc != nil {
			lib = isLibraryFn(sc) || isVxPkg(sc.Pkg)
			what = sc.Name()
			if sc.Parent() != nil && ex.isHavocSiteFn(sc) {
				lib = true // a closure of the function under test is part of it
			}
		} else {
			what = "dynamic call"
			if f, ok := fv.(*VFunc); ok && len(f.Alts) == 1 && ex.isHavocSiteFn(f.Alts[0].Fn) {
				lib = true
			}
		}
		if !lib {
			return ex.havocCall(fr, call.Signature(), what)
		}
	}
	var resT types.Type
	sig := call.Signature()
	switch sig.Results().Len() {
	case 0:
	case 1:
		resT = sig.Results().At(0).Type()
	default:
		resT = sig.Results()
	}
	if call.IsInvoke() {
		if nv, ok := fv.(*VNative); ok {
			return ex.nativeInvoke(fr, nv, call.Method.Name(), args, resT)
		}
		iv := fv.(*VIface)
		fr.panicIf(ts.Not(ex.ifaceNonNil(iv)), in, "nil interface method call")
		var res Value
		heap0 := fr.heap
		var outHeap Heap
		for k := len(iv.Alts) - 1; k >= 0; k-- {
			a := iv.Alts[k]
			if nv, ok := a.V.(*VNative); ok {
				r := ex.nativeInvoke(fr, nv, call.Method.Name(), args, resT)
				if res == nil {
					res = r
				} else {
					res = ex.merge(a.G, r, res)
				}
				continue
			}
			m := ex.prog.LookupMethod(a.T, call.Method.Pkg(), call.Method.Name())
			if m == nil {
				panic(unsupported("method not found: " + call.Method.Name() + " on " + a.T.String()))
			}
			fr.heap = heap0
			r := fr.callFn(m, nil, nil, append([]Value{a.V}, args...), ts.And(fr.pc, a.G), in)
			if outHeap == nil {
				outHeap, res = fr.heap, r
			} else {
				outHeap = ex.mergeHeap(a.G, fr.heap, outHeap)
				if r != nil {
					res = ex.merge(a.G, r, res)
				}
			}
		}
		if outHeap != nil {
			fr.heap = outHeap
		}
		if res == nil && resT != nil {
			res = ex.zero(resT)
		}
		return res
	}
	if nv, ok := fv.(*VNative); ok {
		return ex.nativeCallValue(fr, nv, args, resT)
	}
	f := fv.(*VFunc)
	fr.panicIf(ts.Not(ex.funcNonNil(f)), in, "call of nil function")
	if len(f.Alts) == 1 {
		a := f.Alts[0]
		return fr.callFn(a.Fn, a.Bind, a.Recv, args, fr.pc, in)
	}
	var res Value
	heap0 := fr.heap
	var outHeap Heap
	for k := len(f.Alts) - 1; k >= 0; k-- {
		a := f.Alts[k]
		fr.heap = heap0
		r := fr.callFn(a.Fn, a.Bind, a.Recv, args, ts.And(fr.pc, a.G), in)
		if outHeap == nil {
			outHeap, res = fr.heap, r
		} else {
			outHeap = ex.mergeHeap(a.G, fr.heap, outHeap)
			if r != nil {
				res = ex.merge(a.G, r, res)
			}
		}
	}
	if outHeap != nil {
		fr.heap = outHeap
	}
	if res == nil && resT != nil {
		res = ex.zero(resT)
	}
	return res
}

// callFn calls one concrete function under path condition pc, updating fr.heap.
func (fr *Frame) callFn(fn *ssa.Function, bind []Value, recv Value, args []Value, pc *Term, in ssa.Instruction) Value {
	ex := fr.ex
	if recv != nil {
		args = append([]Value{recv}, args...)
	}
	if fn.Name() == "init" && ex.rootPkg != nil && fn.Pkg != ex.rootPkg {
		return nil // initialisers of imported packages are not executed
	}
	if r, ok := fr.intrinsic(fn, args, pc, in); ok {
		return r
	}
	if fn.Pkg != nil && !isVxPkg(fn.Pkg) {
		// environment stubs written in Go by the harness: VXStub_<Func> or VXStub_<Type>_<Method> in the same package
		name := "VXStub_" + fn.Name()
		if recv := fn.Signature.Recv(); recv != nil {
			rt := recv.Type()
			if p, ok := rt.(*types.Pointer); ok {
				rt = p.Elem()
			}
			if n, ok := rt.(*types.Named); ok {
				name = "VXStub_" + n.Obj().Name() + "_" + fn.Name()
			}
		}
		if st := fn.Pkg.Func(name); st != nil && st != fn && st.Blocks != nil {
			fn = st
			bind = nil
		}
	}
	if fn.Blocks == nil || (fn.Pkg != nil && ex.isStubbedPkg(fn)) {
		full := fn.String()
		if st := ex.vxFunc(stubName(full)); st != nil {
			fn = st
			bind = nil
		} else if fn.Blocks == nil {
			panic(unsupported("call to external function without stub: " + full))
		}
	}
	val, heap := ex.callFunction(fn, args, bind, fr.heap, pc, fr.gid)
	fr.heap = heap
	return val
}

// isStubbedPkg: functions from the standard library are never executed from their real SSA.
func (ex *Exec) isStubbedPkg(fn *ssa.Function) bool {
	p := fn.Pkg.Pkg.Path()
	return !strings.Contains(p, ".") // stdlib import paths have no dot in the first element
}

func (fr *Frame) intrinsic(fn *ssa.Function, args []Value, pc *Term, in ssa.Instruction) (Value, bool) {
	ex := fr.ex
	ts := ex.ts
	name := fn.Name()
	pkg := fn.Pkg
	if pkg == nil && fn.Origin() != nil {
		pkg = fn.Origin().Pkg
		name = fn.Origin().Name()
	}
	if pkg == nil {
		if ex.Native != nil {
			if r, ok := ex.nativeCall(fr, fn, args, pc, in); ok {
				return r, true
			}
		}
		return nil, false
	}
	if pkg.Pkg.Path() == "reflect" {
		// the access path for unexported fields of imported structs (see VRefl)
		switch name {
		case "ValueOf":
			iv, ok := args[0].(*VIface)
			if !ok || len(iv.Alts) != 1 {
				panic(unsupported("reflect.ValueOf of a value of non-constant type"))
			}
			p, ok := iv.Alts[0].V.(*VPtr)
			if !ok {
				panic(unsupported("reflect.ValueOf of a non-pointer"))
			}
			return &VRefl{IsPtr: true, P: p, T: iv.Alts[0].T}, true
		case "Indirect":
			v := args[0].(*VRefl)
			if !v.IsPtr {
				return v, true
			}
			return &VRefl{P: &VPtr{Alts: v.P.Alts}, T: v.T.Underlying().(*types.Pointer).Elem()}, true
		case "FieldByName":
			v := args[0].(*VRefl)
			fname := ex.constStrArg(args[1])
			st, ok := v.T.Underlying().(*types.Struct)
			if !ok || v.IsPtr {
				panic(unsupported("reflect.Value.FieldByName on a non-struct"))
			}
			idx := -1
			for k := 0; k < st.NumFields(); k++ {
				if st.Field(k).Name() == fname {
					idx = k
				}
			}
			if idx < 0 {
				panic(unsupported("reflect.Value.FieldByName: no field " + fname))
			}
			if !v.P.Safe {
				fr.panicIf(ts.Not(ex.ptrNonNil(v.P)), in, "reflect: call of reflect.Value.FieldByName on zero Value")
			}
			out := &VPtr{Alts: make([]PtrAlt, len(v.P.Alts)), Safe: true}
			for k, a := range v.P.Alts {
				np := make([]int, len(a.Path)+1)
				copy(np, a.Path)
				np[len(a.Path)] = idx
				out.Alts[k] = PtrAlt{a.G, a.Obj, np}
			}
			return &VRefl{P: out, T: st.Field(idx).Type()}, true
		case "UnsafeAddr":
			v := args[0].(*VRefl)
			if v.IsPtr {
				panic(unsupported("reflect.Value.UnsafeAddr of a pointer Value"))
			}
			return v.P, true
		}
		panic(unsupported("reflect." + name))
	}
	if isVxPkg(pkg) {
		switch name {
		case "Nondet":
			t := fn.Signature.Results().At(0).Type()
			nm := ex.constStrArg(args[0])
			return ex.nondet(fr, t, nm, pc, ""), true
		case "NondetOpt":
			t := fn.Signature.Results().At(0).Type()
			nm := ex.constStrArg(args[0])
			return ex.nondet(fr, t, nm, pc, ex.constStrArg(args[1])), true
		case "Assume":
			c := args[0].(*VBV).T
			ex.Assumes = append(ex.Assumes, ts.Implies(ts.And(pc, ex.concPrefix()), c))
			return nil, true
		case "Assert":
			c := args[0].(*VBV).T
			label := ex.constStrArg(args[1])
			pc = ts.And(pc, ex.concPrefix())
			ex.Obls = append(ex.Obls, Obligation{Kind: "reach", Cond: pc, Label: label, Pos: ex.pos(in), Fn: fr.fn.String()})
			ex.Obls = append(ex.Obls, Obligation{Kind: "assert", Cond: ts.And(pc, ts.Not(c)), Label: label, Pos: ex.pos(in), Fn: fr.fn.String()})
			return nil, true
		case "Observe":
			nm := ex.constStrArg(args[0])
			iv, ok := args[1].(*VIface)
			if !ok || len(iv.Alts) != 1 {
				panic(unsupported("Observe of a non-constant-typed value"))
			}
			ex.Observes = append(ex.Observes, ObserveRec{Name: nm, G: ts.And(pc, ex.concPrefix()), Val: iv.Alts[0].V, Typ: iv.Alts[0].T})
			return nil, true
		case "Exit":
			// the process ends here (os.Exit / log.Fatal): nothing after it is reachable
			ex.Assumes = append(ex.Assumes, ts.Not(pc))
			return nil, true
		case "Cover":
			label := ex.constStrArg(args[0])
			pc = ts.And(pc, ex.concPrefix())
			ex.Obls = append(ex.Obls, Obligation{Kind: "reach", Cond: pc, Label: label, Pos: ex.pos(in), Fn: fr.fn.String()})
			return nil, true
		case "LenAny":
			iv := args[0].(*VIface)
			n := ts.BV(0, 64)
			for k := len(iv.Alts) - 1; k >= 0; k-- {
				n = ts.Ite(iv.Alts[k].G, ex.sliceLen(iv.Alts[k].V.(*VSlice)), n)
			}
			return &VBV{n}, true
		case "SwapAny":
			iv := args[0].(*VIface)
			i, j := args[1].(*VBV).T, args[2].(*VBV).T
			for _, a := range iv.Alts {
				s := a.V.(*VSlice)
				et := a.T.Underlying().(*types.Slice).Elem()
				vi := fr.sliceElemV(s, i, et)
				vj := fr.sliceElemV(s, j, et)
				fr.sliceStore(s, i, vj, a.G)
				fr.sliceStore(s, j, vi, a.G)
			}
			return nil, true
		case "ByteStr":
			return &VStr{Len: ts.BV(1, 64), B: []*Term{args[0].(*VBV).T}}, true
		case "SameMap":
			// identity of two maps passed as interfaces
			a, b := args[0].(*VIface), args[1].(*VIface)
			var cs []*Term
			for _, x := range a.Alts {
				for _, y := range b.Alts {
					mx, my := x.V.(*VMap), y.V.(*VMap)
					for _, p := range mx.Alts {
						for _, q := range my.Alts {
							if p.Obj == q.Obj {
								cs = append(cs, ts.And(x.G, y.G, p.G, q.G))
							}
						}
					}
				}
			}
			return &VBV{ts.Or(cs...)}, true
		}
		return nil, false
	}
	switch fn.String() {
	case "math.Float64bits", "math.Float32bits", "math.Float64frombits", "math.Float32frombits":
		return args[0], true
	}
	if ex.Conc != nil {
		if r, ok := ex.concIntrinsic(fr, fn, args, pc, in); ok {
			return r, true
		}
	}
	if ex.Native != nil {
		if r, ok := ex.nativeCall(fr, fn, args, pc, in); ok {
			return r, true
		}
	}
	return nil, false
}

func (ex *Exec) constStrArg(v Value) string {
	s := v.(*VStr)
	if !s.Len.IsConst() {
		panic("non-constant string argument to intrinsic")
	}
	b := make([]byte, s.Len.Val)
	for i := range b {
		if !s.B[i].IsConst() {
			panic("non-constant string argument to intrinsic")
		}
		b[i] = byte(s.B[i].Val)
	}
	return string(b)
}

// sliceStore writes val at element idx of s under condition cond (in addition to alt guards).
func (fr *Frame) sliceStore(s *VSlice, idx *Term, val Value, cond *Term) {
	ex := fr.ex
	ts := ex.ts
	for _, a := range s.Alts {
		pos := ts.Add(a.Off, idx)
		arr := fr.heapGet(a.Obj).(*VArr)
		var ne []Value
		for j := 0; j < a.Obj.N; j++ {
			g := ts.And(cond, a.G, ts.Eq(pos, ts.BV(uint64(j), 64)))
			if g.IsFalse() {
				continue
			}
			if ne == nil {
				ne = make([]Value, len(arr.E))
				copy(ne, arr.E)
			}
			ne[j] = ex.merge(g, val, arr.E[j])
		}
		if ne != nil {
			fr.heap[a.Obj] = &VArr{ne}
		}
	}
}

func (fr *Frame) builtin(b *ssa.Builtin, call *ssa.CallCommon, args []Value, in ssa.Instruction) Value {
	ex := fr.ex
	ts := ex.ts
	switch b.Name() {
	case "len":
		switch x := args[0].(type) {
		case *VSlice:
			return &VBV{ex.sliceLen(x)}
		case *VStr:
			return &VBV{x.Len}
		case *VMap:
			return &VBV{fr.mapLen(x)}
		case *VArr:
			return &VBV{ts.BV(uint64(len(x.E)), 64)}
		case *VPtr:
			at := call.Args[0].Type().Underlying().(*types.Pointer).Elem().Underlying().(*types.Array)
			return &VBV{ts.BV(uint64(at.Len()), 64)}
		case *VChan:
			return ex.chanLen(fr, x)
		}
	case "cap":
		switch x := args[0].(type) {
		case *VSlice:
			return &VBV{ex.sliceCap(x)}
		case *VArr:
			return &VBV{ts.BV(uint64(len(x.E)), 64)}
		case *VChan:
			return ex.chanCap(fr, x)
		}
	case "append":
		return fr.appendOp(call, args, in)
	case "copy":
		return fr.copyOp(call, args, in)
	case "delete":
		fr.mapDelete(args[0].(*VMap), call.Args[0].Type().Underlying().(*types.Map), args[1])
		return nil
	case "print", "println":
		return nil
	case "real":
		return &VBV{args[0].(*VCplx).Re}
	case "imag":
		return &VBV{args[0].(*VCplx).Im}
	case "complex":
		return &VCplx{args[0].(*VBV).T, args[1].(*VBV).T}
	case "close":
		ex.chanClose(fr, args[0].(*VChan), in)
		return nil
	case "min", "max":
		t := call.Args[0].Type()
		if isInteger(t) {
			_, signed := ex.intW(t)
			r := args[0].(*VBV).T
			for _, a := range args[1:] {
				x := a.(*VBV).T
				var lt *Term
				if b.Name() == "min" {
					if signed {
						lt = ts.Slt(x, r)
					} else {
						lt = ts.Ult(x, r)
					}
				} else {
					if signed {
						lt = ts.Slt(r, x)
					} else {
						lt = ts.Ult(r, x)
					}
				}
				r = ts.Ite(lt, x, r)
			}
			return &VBV{r}
		}
	case "recover":
		return &VIface{}
	}
	panic(unsupported("builtin " + b.Name()))
}

func (fr *Frame) appendOp(call *ssa.CallCommon, args []Value, in ssa.Instruction) Value {
	ex := fr.ex
	ts := ex.ts
	s := args[0].(*VSlice)
	st := call.Args[0].Type().Underlying().(*types.Slice)
	et := st.Elem()
	ls := ex.sliceLen(s)
	// source elements
	var lt *Term
	var maxT int
	var getT func(k int) Value
	switch t := args[1].(type) {
	case *VSlice:
		lt = ex.sliceLen(t)
		hi, ok := ts.uhi(lt)
		if !ok {
			hi = 0
			for _, a := range t.Alts {
				if uint64(a.Obj.N) > hi {
					hi = uint64(a.Obj.N)
				}
			}
		}
		maxT = int(hi)
		vals := make([]Value, maxT)
		for k := range vals {
			vals[k] = fr.sliceElemV(t, ts.BV(uint64(k), 64), et)
		}
		getT = func(k int) Value { return vals[k] }
	case *VStr:
		lt = t.Len
		maxT = len(t.B)
		getT = func(k int) Value { return &VBV{t.B[k]} }
	default:
		panic(unsupported("append source"))
	}
	if maxT == 0 {
		return s
	}
	newLen := ts.Add(ls, lt)
	out := &VSlice{}
	var inplace []*Term
	for _, a := range s.Alts {
		ip := ts.And(a.G, ts.Ule(ts.Add(a.Len, lt), a.Cap))
		if ip.IsFalse() {
			continue
		}
		inplace = append(inplace, ip)
		for k := 0; k < maxT; k++ {
			cond := ts.And(ip, ts.Ult(ts.BV(uint64(k), 64), lt))
			one := &VSlice{[]SliceAlt{{ts.True, a.Obj, a.Off, a.Cap, a.Cap}}}
			fr.sliceStore(one, ts.Add(a.Len, ts.BV(uint64(k), 64)), getT(k), cond)
		}
		out.Alts = append(out.Alts, SliceAlt{ip, a.Obj, a.Off, ts.Add(a.Len, lt), a.Cap})
	}
	grow := ts.Not(ts.Or(inplace...))
	// appending zero elements returns s unchanged (also when s is nil)
	growNZ := ts.And(grow, ts.Not(ts.Eq(lt, ts.BV(0, 64))))
	if !ts.And(fr.pc, growNZ).IsFalse() {
		hiS, ok := ts.uhi(ls)
		if !ok {
			hiS = 0
			for _, a := range s.Alts {
				if uint64(a.Obj.N) > hiS {
					hiS = uint64(a.Obj.N)
				}
			}
		}
		n := int(hiS) + maxT + 1
		o := ex.newObj(types.NewArray(et, int64(n)), "append")
		o.N = n
		arr := &VArr{E: make([]Value, n)}
		olds := make([]Value, int(hiS))
		for j := range olds {
			olds[j] = fr.sliceElemV(s, ts.BV(uint64(j), 64), et)
		}
		z := ex.zero(et)
		for j := 0; j < n; j++ {
			// element j: j < ls ? s[j] : (j-ls < lt ? t[j-ls] : zero)
			var v Value = z
			for k := maxT - 1; k >= 0; k-- {
				// t[k] lands at j iff ls == j-k
				if j-k < 0 {
					continue
				}
				c := ts.And(ts.Eq(ls, ts.BV(uint64(j-k), 64)), ts.Ult(ts.BV(uint64(k), 64), lt))
				v = ex.merge(c, getT(k), v)
			}
			if j < len(olds) {
				v = ex.merge(ts.Ult(ts.BV(uint64(j), 64), ls), olds[j], v)
			}
			arr.E[j] = v
		}
		fr.heap[o] = arr
		var cp *Term
		if isHarnessFn(fr.fn) {
			// growth policy inside harness/reference code is irrelevant to the claims: exact capacity
			cp = newLen
		} else {
			cp = ts.Var("appendcap", 64)
			ex.Assumes = append(ex.Assumes, ts.Implies(ts.And(fr.pc, growNZ), ts.And(ts.Ule(newLen, cp), ts.Ule(cp, ts.BV(uint64(n), 64)))))
		}
		out.Alts = append(out.Alts, SliceAlt{growNZ, o, ts.BV(0, 64), newLen, cp})
	}
	// lt == 0 and not in place (only possible when s is nil or ... cap<len impossible): result is s itself
	growZ := ts.And(grow, ts.Eq(lt, ts.BV(0, 64)))
	if !growZ.IsFalse() {
		for _, a := range s.Alts {
			g := ts.And(a.G, growZ)
			if !g.IsFalse() {
				out.Alts = append(out.Alts, SliceAlt{g, a.Obj, a.Off, a.Len, a.Cap})
			}
		}
	}
	// normalise: merge alts with same object
	norm := &VSlice{}
L:
	for _, a := range out.Alts {
		for i := range norm.Alts {
			o := &norm.Alts[i]
			if o.Obj == a.Obj {
				o.Off = ts.Ite(o.G, o.Off, a.Off)
				o.Len = ts.Ite(o.G, o.Len, a.Len)
				o.Cap = ts.Ite(o.G, o.Cap, a.Cap)
				o.G = ts.Or(o.G, a.G)
				continue L
			}
		}
		norm.Alts = append(norm.Alts, a)
	}
	return norm
}

func (fr *Frame) copyOp(call *ssa.CallCommon, args []Value, in ssa.Instruction) Value {
	ex := fr.ex
	ts := ex.ts
	d := args[0].(*VSlice)
	et := call.Args[0].Type().Underlying().(*types.Slice).Elem()
	ld := ex.sliceLen(d)
	var lsrc *Term
	var maxS int
	var get func(k int) Value
	switch t := args[1].(type) {
	case *VSlice:
		lsrc = ex.sliceLen(t)
		hi, ok := ts.uhi(lsrc)
		if !ok {
			hi = 0
			for _, a := range t.Alts {
				if uint64(a.Obj.N) > hi {
					hi = uint64(a.Obj.N)
				}
			}
		}
		maxS = int(hi)
		vals := make([]Value, maxS)
		for k := range vals {
			vals[k] = fr.sliceElemV(t, ts.BV(uint64(k), 64), et)
		}
		get = func(k int) Value { return vals[k] }
	case *VStr:
		lsrc = t.Len
		maxS = len(t.B)
		get = func(k int) Value { return &VBV{t.B[k]} }
	}
	n := ts.Ite(ts.Ult(ld, lsrc), ld, lsrc)
	for k := 0; k < maxS; k++ {
		fr.sliceStore(d, ts.BV(uint64(k), 64), get(k), ts.Ult(ts.BV(uint64(k), 64), n))
	}
	return &VBV{n}
}

// isHarnessFn: harness functions (VX_*), reference functions (ref*) and their closures, and package vx.
func isHarnessFn(fn *ssa.Function) bool {
	for f := fn; f != nil; f = f.Parent() {
		if isVxPkg(f.Pkg) {
			return true
		}
		n := f.Name()
		if strings.HasPrefix(n, "VX_") || strings.HasPrefix(n, "ref") {
			return true
		}
	}
	return false
}

func (ex *Exec) isHavocSiteFn(fn *ssa.Function) bool {
	for f := fn; f != nil; f = f.Parent() {
		if f == ex.Havoc.Root {
			return true
		}
	}
	return false
}

func (ex *Exec) describe(v Value) string {
	return fmt.Sprintf("%T", v)
}
