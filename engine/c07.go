package main

import (
	"bytes"
	"fmt"
	"os"
	"path/filepath"
	"strings"
	"time"
)

// C07 (semantic core + byte identity on listed histories): for each history v1 -> v2 the freshly built goderive
// is run on v2 ON TOP OF the derived.gen.go that v1 (or a truncated remnant of it) left behind. The result must
// (a) exit 0 in one run and type-check, (b) be byte-identical to a from-scratch generation of v2 [concrete,
// labelled as such], and (c) satisfy the C02/C05 harnesses for the v2 types [solver]: a stale function that
// survives regeneration type-checks while old fields exist, and the solver then returns two values that differ
// only in the new field with Equal = true.

type c07History struct {
	ID    string
	What  string
	V1    func() (*Ty, []string) // type and derive plugins called in v1
	V2    func() (*Ty, []string)
	Trunc int // >0: truncate v1's derived.gen.go to this fraction (percent) before the v2 run
	// TruncBytes >= 0 with TruncAbs set: truncate to exactly this many bytes (0 = the state right after os.Create)
	TruncBytes int
	TruncAbs   bool
	// raw histories: hand-written user sources (x.go) instead of a generated type + plugin list; Harness is appended
	// to the v2 package (solver harnesses over the regenerated functions)
	Raw1, Raw2, Harness string
	HarnessNames        []string
	Extra               map[string]string // further files present in both versions (e.g. an external test package)
}

// c07RawFiles builds the files of one version of a raw history.
func c07RawFiles(pkg, body, harness string, names []string) map[string]string {
	files := map[string]string{"x.go": "package " + pkg + "\n\n" + body}
	if harness != "" {
		files["harness.go"] = fmt.Sprintf("package %s\n\nimport \"%s/vxlib/vx\"\n\nvar _ = vx.Cover\n\n%s", pkg, modPath, harness)
		var rt strings.Builder
		fmt.Fprintf(&rt, "package %s\n\nimport (\n\t\"testing\"\n\n\t\"%s/vxlib/vx\"\n)\n\nfunc TestVXReplay(t *testing.T) {\n\tvx.Replay(t, map[string]func(){\n", pkg, modPath)
		for _, n := range names {
			fmt.Fprintf(&rt, "\t\t%q: %s,\n", n, n)
		}
		rt.WriteString("\t})\n}\n")
		files["zz_replay_test.go"] = rt.String()
	}
	return files
}

const c07SortHarness = `func VX_C07_C0raw_sorted() {
	m := vx.NondetOpt[map[KEY]int]("m", "map=2")
	ks := use(m)
	vx.Assert(len(ks) == len(m), "one key per entry")
	for i := 0; i+1 < len(ks); i++ {
		vx.Assert(ks[i] < ks[i+1], "keys ascending and distinct")
	}
	for _, k := range ks {
		_, ok := m[k]
		vx.Assert(ok, "every returned key is a key of the map")
	}
}
`

func c07RawHistories(tier string) []c07History {
	sortH := func(key string) string { return strings.ReplaceAll(c07SortHarness, "KEY", key) }
	names := []string{"VX_C07_C0raw_sorted"}
	nested := func(key string) string {
		return "func use(m map[" + key + "]int) []" + key + " { return deriveSort(deriveKeys(m)) }\n\ntype P struct{ X, Y int }\n\nfunc eq(a, b *P) bool { return deriveEqual(a, b) }\n"
	}
	hs := []c07History{
		{ID: "H12", What: "unchanged sources with a nested derive call, second run in place", Raw1: nested("string"), Raw2: nested("string"), Harness: sortH("string"), HarnessNames: names},
		{ID: "H13", What: "map retyped under an explicit deriveSort(deriveKeys(m))", Raw1: nested("string"), Raw2: nested("int"), Harness: sortH("int"), HarnessNames: names},
		{ID: "H21", What: "map retyped where the derive result flows through a variable into the next derive call",
			Raw1: "func use(m map[string]int) []string {\n\tks := deriveKeys(m)\n\treturn deriveSort(ks)\n}\n",
			Raw2: "func use(m map[int]int) []int {\n\tks := deriveKeys(m)\n\treturn deriveSort(ks)\n}\n", Harness: sortH("int"), HarnessNames: names},
		{ID: "H22", What: "element type retyped under a three-level nested derive call",
			Raw1: "func use(m map[string]int) []string { return deriveSort(deriveUnique(deriveKeys(m))) }\n",
			Raw2: "func use(m map[int]int) []int { return deriveSort(deriveUnique(deriveKeys(m))) }\n", Harness: sortH("int"), HarnessNames: names},
		{ID: "H23", What: "named key type renamed under deriveEqual(deriveSort(deriveKeys(m)), want): the old file mentions a type that no longer exists",
			Raw1: "type Name string\n\ntype I struct{ Tags map[Name]int }\n\nfunc use(i *I, want []Name) bool { return deriveEqual(deriveSort(deriveKeys(i.Tags)), want) }\n",
			Raw2: "type Label string\n\ntype I struct{ Tags map[Label]int }\n\nfunc use(i *I, want []Label) bool { return deriveEqual(deriveSort(deriveKeys(i.Tags)), want) }\n"},
		{ID: "H24", What: "map retyped under a nested derive call in a directory that also has an external test package",
			Raw1: nested("string"), Raw2: nested("int"), Harness: sortH("int"), HarnessNames: names,
			Extra: map[string]string{"ext_test.go": "package h24_test\n\nimport \"testing\"\n\nfunc TestNothing(t *testing.T) {}\n"}},
		{ID: "H14", What: "second derive call of the same plugin added",
			Raw1: "type A struct{ X int }\n\nfunc eqA(a, b *A) bool { return deriveEqualA(a, b) }\n",
			Raw2: "type A struct{ X int }\n\ntype B struct{ Y string }\n\nfunc eqA(a, b *A) bool { return deriveEqualA(a, b) }\n\nfunc eqB(a, b *B) bool { return deriveEqualB(a, b) }\n"},
		{ID: "H15", What: "unchanged sources, flat call followed by a nested call of the same plugin",
			Raw1: "func flat(l []int) []int { return deriveSortA(l) }\n\nfunc use(m map[string]int) []string { return deriveSortB(deriveKeys(m)) }\n",
			Raw2: "func flat(l []int) []int { return deriveSortA(l) }\n\nfunc use(m map[string]int) []string { return deriveSortB(deriveKeys(m)) }\n", Harness: sortH("string"), HarnessNames: names},
		{ID: "H16", What: "unchanged sources with a three-level nested derive call",
			Raw1: "func use(m map[string]int) []string { return deriveSort(deriveUnique(deriveKeys(m))) }\n",
			Raw2: "func use(m map[string]int) []string { return deriveSort(deriveUnique(deriveKeys(m))) }\n", Harness: sortH("string"), HarnessNames: names},
	}
	return hs
}

func c07Histories(tier string) []c07History {
	I, S := B("int"), B("string")
	base := func(extra ...Fld) *Ty {
		f := []Fld{F("A", I), F("L", Slice(I))}
		return Ptr(NStruct("H", append(f, extra...)...))
	}
	all := []string{"Equal", "Compare", "Hash", "DeepCopy"}
	hs := []c07History{
		{ID: "H1", What: "field added", V1: func() (*Ty, []string) { return base(), all }, V2: func() (*Ty, []string) { return base(F("X", S)), all }},
		{ID: "H2", What: "field removed", V1: func() (*Ty, []string) { return base(F("X", S), F("Y", Map(S, I))), all }, V2: func() (*Ty, []string) { return base(), all }},
		{ID: "H3", What: "field retyped", V1: func() (*Ty, []string) { return base(F("X", I)), all }, V2: func() (*Ty, []string) { return base(F("X", Slice(S))), all }},
		{ID: "H4", What: "derive calls added", V1: func() (*Ty, []string) { return base(F("X", S)), []string{"Equal"} }, V2: func() (*Ty, []string) { return base(F("X", S)), all }},
		{ID: "H5", What: "derive calls removed", V1: func() (*Ty, []string) { return base(F("X", S)), all }, V2: func() (*Ty, []string) { return base(F("X", S)), []string{"Equal", "DeepCopy"} }},
		{ID: "H6", What: "map key type flowing through Keys->Sort->Compare changed", V1: func() (*Ty, []string) { return base(F("M", Map(I, S))), all }, V2: func() (*Ty, []string) { return base(F("M", Map(S, S))), all }},
		{ID: "H7", What: "truncated remnant (30%) of the previous output", V1: func() (*Ty, []string) { return base(F("X", S)), all }, V2: func() (*Ty, []string) { return base(F("X", S), F("Z", I)), all }, Trunc: 30},
		{ID: "H8", What: "truncated remnant (70%) of the previous output", V1: func() (*Ty, []string) { return base(F("X", S)), all }, V2: func() (*Ty, []string) { return base(F("X", S)), all }, Trunc: 70},
	}
	hs = append(hs, c07History{ID: "H11", What: "all derive calls removed: the file must be removed", V1: func() (*Ty, []string) { return base(F("X", S)), all }, V2: func() (*Ty, []string) { return base(F("X", S)), nil }})
	same := func() (*Ty, []string) { return base(F("X", S)), all }
	hs = append(hs,
		c07History{ID: "H17", What: "empty remnant (the state right after os.Create)", V1: same, V2: same, TruncAbs: true, TruncBytes: 0},
		c07History{ID: "H18", What: "remnant cut inside the header comment (20 bytes)", V1: same, V2: same, TruncAbs: true, TruncBytes: 20},
		c07History{ID: "H19", What: "remnant cut inside the package clause (48 bytes)", V1: same, V2: same, TruncAbs: true, TruncBytes: 48},
		c07History{ID: "H20", What: "remnant cut right after the package clause", V1: same, V2: same, TruncAbs: true, TruncBytes: 53},
	)
	hs = append(hs, c07RawHistories(tier)...)
	if tier != "quick" {
		hs = append(hs,
			c07History{ID: "H9", What: "struct field becomes pointer", V1: func() (*Ty, []string) { return base(F("X", NStruct("Leaf", F("I", I), F("S", S)))), all }, V2: func() (*Ty, []string) {
				return base(F("X", Ptr(NStruct("Leaf", F("I", I), F("S", S))))), all
			}},
			c07History{ID: "H10", What: "truncated remnant (5%)", V1: func() (*Ty, []string) { return base(), all }, V2: func() (*Ty, []string) { return base(F("X", S)), all }, Trunc: 5},
		)
	}
	return hs
}

func c07Sources(pkg string, t *Ty, plugins []string, withHarness bool, id string) map[string]string {
	g := NewGen()
	g.declare(t)
	files := map[string]string{}
	var hs []HarnessSrc
	if withHarness {
		in := Inst{ID: id, T: t, Tags: tagOf(t)}
		has := func(p string) bool {
			for _, x := range plugins {
				if x == p {
					return true
				}
			}
			return false
		}
		if has("Equal") {
			for _, h := range genC02(g, in, "quick") {
				if h.Kind == "spec" || h.Kind == "symm" {
					hs = append(hs, h)
				}
			}
		}
		if has("Compare") && has("Equal") {
			for _, h := range genC03(g, in, "quick") {
				if h.Kind == "eqlink" {
					hs = append(hs, h)
				}
			}
		}
		if has("DeepCopy") {
			for _, h := range genC05(g, in, "quick") {
				if h.Kind == "deepcopy" {
					hs = append(hs, h)
				}
			}
		}
	}
	var types strings.Builder
	fmt.Fprintf(&types, "package %s\n\nimport \"%s/vxlib/vx\"\n\nvar _ = vx.Cover\n\n", pkg, modPath)
	types.WriteString(g.Decls())
	types.WriteString(g.Funcs())
	files["types.go"] = types.String()
	// call sites (always present: they are what goderive works from)
	var calls strings.Builder
	fmt.Fprintf(&calls, "package %s\n\nfunc useDerived(a, b %s) {\n", pkg, t.Expr())
	for _, p := range plugins {
		switch p {
		case "Equal":
			fmt.Fprintf(&calls, "\t_ = deriveEqual%s(a, b)\n", id)
		case "Compare":
			fmt.Fprintf(&calls, "\t_ = deriveCompare%s(a, b)\n", id)
		case "Hash":
			fmt.Fprintf(&calls, "\t_ = deriveHash%s(a)\n", id)
		case "DeepCopy":
			fmt.Fprintf(&calls, "\tderiveDeepCopy%s(a, b)\n", id)
		}
	}
	calls.WriteString("}\n")
	files["calls.go"] = calls.String()
	if withHarness {
		var h strings.Builder
		fmt.Fprintf(&h, "package %s\n\nimport \"%s/vxlib/vx\"\n\nvar _ = vx.Cover\n\n", pkg, modPath)
		var rt strings.Builder
		fmt.Fprintf(&rt, "package %s\n\nimport (\n\t\"testing\"\n\n\t\"%s/vxlib/vx\"\n)\n\nfunc TestVXReplay(t *testing.T) {\n\tvx.Replay(t, map[string]func(){\n", pkg, modPath)
		for _, x := range hs {
			// C02/C03/C05 templates call curried and other forms; keep only calls to the plugins present
			h.WriteString(strings.ReplaceAll(x.Src, "VX_C0", "VX_C07_C0") + "\n")
			fmt.Fprintf(&rt, "\t\t%q: %s,\n", strings.Replace(x.Name, "VX_C0", "VX_C07_C0", 1), strings.Replace(x.Name, "VX_C0", "VX_C07_C0", 1))
		}
		rt.WriteString("\t})\n}\n")
		files["harness.go"] = h.String()
		files["zz_replay_test.go"] = rt.String()
	}
	return files
}

func writeFiles(dir string, files map[string]string) {
	os.MkdirAll(dir, 0o755)
	for n, c := range files {
		os.WriteFile(filepath.Join(dir, n), []byte(c), 0o644)
	}
}

func runC07(r *Runner) {
	hs := c07Histories(r.Tier)
	type res struct {
		h         c07History
		rel       string
		ok        bool
		why       string
		identical bool
	}
	out := make([]res, len(hs))
	parallel(len(hs), r.Workers, func(i int) {
		h := hs[i]
		pkg := strings.ToLower(h.ID)
		rel := "vxfix/c07/" + pkg
		dir := filepath.Join(r.S.Repo, rel)
		out[i] = res{h: h, rel: rel}
		if h.Raw1 != "" {
			writeFiles(dir, c07RawFiles(pkg, h.Raw1, "", nil))
			writeFiles(dir, h.Extra)
		} else {
			t1, p1 := h.V1()
			writeFiles(dir, c07Sources(pkg, t1, p1, false, h.ID))
		}
		if o, code, _ := runCmd(r.S.Repo, goEnv(), 2*time.Minute, r.S.Goderive, "./"+rel); code != 0 {
			out[i].why = "goderive failed on v1: " + trunc(o, 300)
			return
		}
		gen := filepath.Join(dir, "derived.gen.go")
		if h.Trunc > 0 {
			data, err := os.ReadFile(gen)
			if err == nil {
				os.WriteFile(gen, data[:len(data)*h.Trunc/100], 0o644)
			}
		}
		if h.TruncAbs {
			data, err := os.ReadFile(gen)
			if err == nil && h.TruncBytes <= len(data) {
				os.WriteFile(gen, data[:h.TruncBytes], 0o644)
			}
		}
		// v2 sources replace v1's, the old derived.gen.go stays
		os.Remove(filepath.Join(dir, "types.go"))
		os.Remove(filepath.Join(dir, "calls.go"))
		os.Remove(filepath.Join(dir, "x.go"))
		var v2files map[string]string
		if h.Raw2 != "" {
			v2files = c07RawFiles(pkg, h.Raw2, h.Harness, h.HarnessNames)
			for n, c := range h.Extra {
				v2files[n] = c
			}
		} else {
			t2, p2 := h.V2()
			v2files = c07Sources(pkg, t2, p2, true, h.ID)
		}
		writeFiles(dir, v2files)
		if o, code, _ := runCmd(r.S.Repo, goEnv(), 2*time.Minute, r.S.Goderive, "./"+rel); code != 0 {
			out[i].why = fmt.Sprintf("goderive exits %d on v2 over the old derived.gen.go: %s", code, trunc(o, 300))
			return
		}
		// from scratch, in a sibling package directory with the same package name
		srel := "vxfix/c07s/" + pkg
		sdir := filepath.Join(r.S.Repo, srel)
		writeFiles(sdir, v2files)
		if o, code, _ := runCmd(r.S.Repo, goEnv(), 2*time.Minute, r.S.Goderive, "./"+srel); code != 0 {
			out[i].why = "goderive failed on v2 from scratch: " + trunc(o, 300)
			return
		}
		a, _ := os.ReadFile(gen)
		b, _ := os.ReadFile(filepath.Join(sdir, "derived.gen.go"))
		out[i].identical = bytes.Equal(a, b)
		out[i].ok = true
	})
	var good []*FixPkg
	var rows []map[string]interface{}
	for _, o := range out {
		rows = append(rows, map[string]interface{}{"history": o.h.ID, "what": o.h.What, "one_run_ok": o.ok, "byte_identical_to_scratch": o.identical, "detail": o.why})
		if !o.ok {
			if f := r.Known.matchKey(r.Spec.ID, "history:"+o.h.ID+":fails"); f != nil {
				r.known(f, fmt.Sprintf("history %s (%s): %s", o.h.ID, o.h.What, o.why))
				continue
			}
			dir := saveReplay(r.S, r.Spec.ID, o.rel, &Model{Harness: "history_" + o.h.ID}, o.h.What+": "+o.why)
			r.violation(dir, fmt.Sprintf("history %s (%s): %s", o.h.ID, o.h.What, o.why))
			continue
		}
		if !o.identical {
			if f := r.Known.matchKey(r.Spec.ID, "history:"+o.h.ID+":differs"); f != nil {
				r.known(f, fmt.Sprintf("history %s (%s): derived.gen.go after one run differs from the from-scratch output", o.h.ID, o.h.What))
				continue
			}
			dir := saveReplay(r.S, r.Spec.ID, o.rel, &Model{Harness: "history_" + o.h.ID}, o.h.What+": derived.gen.go differs from a from-scratch generation")
			r.violation(dir, fmt.Sprintf("history %s (%s): derived.gen.go after one run differs from the from-scratch output for the same sources", o.h.ID, o.h.What))
			continue
		}
		good = append(good, &FixPkg{Rel: o.rel, GenOK: true})
	}
	r.Programs = len(hs)
	r.Extra["histories"] = rows
	r.Samples = append(r.Samples, rows[0])
	r.stage(fmt.Sprintf("%d histories replayed through the freshly built goderive", len(hs)))
	// type-check + solver harnesses on what is on disk after regeneration
	ok, bad := r.loadAll(good)
	for _, p := range bad {
		dir := saveReplay(r.S, r.Spec.ID, p.Rel, &Model{Harness: "history_" + filepath.Base(p.Rel)}, "result does not type-check: "+trunc(p.GenOut, 500))
		r.violation(dir, "regenerated package does not type-check: "+trunc(p.GenOut, 300))
	}
	r.Pkgs = ok
	r.symx(ok)
	if r.Filter == nil {
		c07Sweep(r)
	}
}

// c08Repeat (C08, concrete, through the public API): the same sources generated from scratch in two
// different directories and then twice more in place must give the same derived.gen.go bytes every time.
// The fixtures are the ones whose registration order depends on what an earlier pass or run left behind:
// nested derive calls, a flat and a nested call of one plugin, several plugins with helper functions.
func c08Repeat(r *Runner) {
	type fx struct{ name, src string }
	var fxs []fx
	for _, h := range c07RawHistories(r.Tier) {
		fxs = append(fxs, fx{strings.ToLower(h.ID), h.Raw2})
	}
	fxs = append(fxs, fx{"multi", "type L struct {\n\tI int\n\tS string\n}\n\ntype T struct {\n\tA int\n\tL []*L\n\tM map[string]int\n\tP *L\n}\n\nfunc use(a, b *T) (bool, int, uint64, string) {\n\tderiveDeepCopy(a, b)\n\treturn deriveEqual(a, b), deriveCompare(a, b), deriveHash(a), deriveGoString(a)\n}\n\nfunc keys(m map[string]int) []string { return deriveSort(deriveKeys(m)) }\n"})
	var rows []map[string]interface{}
	for _, f := range fxs {
		var outs [][]byte
		var problems []string
		for _, where := range []string{"a", "b"} {
			rel := "vxfix/c08rep/" + where + "/" + f.name
			dir := filepath.Join(r.S.Repo, rel)
			writeFiles(dir, map[string]string{"x.go": "package " + f.name + "\n\n" + f.src})
			runs := 1
			if where == "a" {
				runs = 3
			}
			for k := 0; k < runs; k++ {
				if o, code, _ := runCmd(r.S.Repo, goEnv(), 2*time.Minute, r.S.Goderive, "./"+rel); code != 0 {
					problems = append(problems, fmt.Sprintf("run %d in %s exits %d: %s", k+1, where, code, trunc(o, 200)))
					break
				}
				data, _ := os.ReadFile(filepath.Join(dir, "derived.gen.go"))
				outs = append(outs, data)
			}
		}
		for k := 1; k < len(outs); k++ {
			if !bytes.Equal(outs[0], outs[k]) {
				problems = append(problems, fmt.Sprintf("output %d differs from the first from-scratch output (1-3: same directory, repeated in place; 4: another directory)", k+1))
			}
		}
		// other spellings of the same package: the full import path, and "." from inside the directory
		if len(outs) > 0 {
			rel := "vxfix/c08rep/a/" + f.name
			dir := filepath.Join(r.S.Repo, rel)
			for _, sp := range []struct{ what, cwd, arg string }{{"import path", r.S.Repo, modPath + "/" + rel}, {"\".\" inside the directory", dir, "."}} {
				if o, code, _ := runCmd(sp.cwd, goEnv(), 2*time.Minute, r.S.Goderive, sp.arg); code != 0 {
					problems = append(problems, fmt.Sprintf("addressed by %s goderive exits %d: %s", sp.what, code, trunc(o, 200)))
					continue
				}
				data, _ := os.ReadFile(filepath.Join(dir, "derived.gen.go"))
				if !bytes.Equal(outs[0], data) {
					problems = append(problems, "output differs when the package is addressed by "+sp.what)
				}
			}
		}
		rows = append(rows, map[string]interface{}{"fixture": f.name, "runs": len(outs), "problems": problems})
		if len(problems) > 0 {
			rel := "vxfix/c08rep/a/" + f.name
			dir := saveReplay(r.S, r.Spec.ID, rel, &Model{Harness: "repeat_" + f.name}, strings.Join(problems, "; "))
			r.violation(dir, fmt.Sprintf("repeated generation of fixture %s: %s", f.name, strings.Join(problems, "; ")))
		}
	}
	r.Extra["repeat_runs"] = rows
	r.stage(fmt.Sprintf("%d fixtures generated 4 times each (2 directories, 3 runs in place) and compared byte for byte", len(fxs)))
}

// c07Sweep: "for every byte offset k the state in which derived.gen.go is the first k bytes of the output":
// one small package (Equal over a struct, Sort over Keys of a map: a derive result that feeds another derive
// call) is generated from scratch, then regenerated over every prefix of its own output (quick: every fifth
// offset; thorough: every offset). Each run must exit 0 and reproduce the from-scratch bytes [concrete].
func c07Sweep(r *Runner) {
	src := "package sweep\n\ntype P struct {\n\tA int\n\tS []string\n}\n\nfunc eq(a, b *P) bool { return deriveEqual(a, b) }\n\nfunc keys(m map[string]int) []string { return deriveSort(deriveKeys(m)) }\n"
	base := filepath.Join(r.S.Repo, "vxfix/c07sweep")
	sdir := filepath.Join(base, "scratch")
	writeFiles(sdir, map[string]string{"x.go": src})
	if o, code, _ := runCmd(r.S.Repo, goEnv(), 2*time.Minute, r.S.Goderive, "./vxfix/c07sweep/scratch"); code != 0 {
		r.inconsistent("truncation sweep: from-scratch generation failed: " + trunc(o, 200))
		return
	}
	want, _ := os.ReadFile(filepath.Join(sdir, "derived.gen.go"))
	stride := 5
	if r.Tier == "thorough" {
		stride = 1
	}
	var ks []int
	for k := 0; k <= len(want); k += stride {
		ks = append(ks, k)
	}
	type res struct {
		k    int
		code int
		same bool
		msg  string
	}
	out := make([]res, len(ks))
	parallel(len(ks), r.Workers, func(i int) {
		k := ks[i]
		rel := fmt.Sprintf("vxfix/c07sweep/k%04d", k)
		dir := filepath.Join(r.S.Repo, rel)
		writeFiles(dir, map[string]string{"x.go": src})
		os.WriteFile(filepath.Join(dir, "derived.gen.go"), want[:k], 0o644)
		o, code, _ := runCmd(r.S.Repo, goEnv(), 2*time.Minute, r.S.Goderive, "./"+rel)
		got, _ := os.ReadFile(filepath.Join(dir, "derived.gen.go"))
		out[i] = res{k, code, bytes.Equal(got, want), trunc(strings.TrimSpace(o), 160)}
		if code == 0 && out[i].same {
			os.RemoveAll(dir)
		}
	})
	var bad []res
	for _, o := range out {
		if o.code != 0 || !o.same {
			bad = append(bad, o)
		}
	}
	r.Extra["truncation_sweep"] = map[string]interface{}{"output_bytes": len(want), "offsets_tried": len(ks), "stride": stride, "failing_offsets": len(bad)}
	r.stage(fmt.Sprintf("truncation sweep: %d prefixes of a %d-byte derived.gen.go regenerated, %d failing", len(ks), len(want), len(bad)))
	if len(bad) == 0 {
		return
	}
	// report maximal runs of consecutive failing offsets
	for i := 0; i < len(bad); {
		j := i
		for j+1 < len(bad) && bad[j+1].k == bad[j].k+stride {
			j++
		}
		what := fmt.Sprintf("derived.gen.go cut after %d..%d of %d bytes (%q): ", bad[i].k, bad[j].k, len(want), string(want[max(0, bad[i].k-24):bad[i].k]))
		if bad[i].code != 0 {
			what += fmt.Sprintf("goderive exits %d: %s", bad[i].code, bad[i].msg)
		} else {
			what += "the regenerated file differs from the from-scratch output"
		}
		if f := r.Known.matchKey(r.Spec.ID, fmt.Sprintf("sweep:%d", bad[i].k)); f != nil {
			r.known(f, what)
		} else {
			dir := saveReplay(r.S, r.Spec.ID, fmt.Sprintf("vxfix/c07sweep/k%04d", bad[i].k), &Model{Harness: fmt.Sprintf("sweep_k%04d", bad[i].k)}, what)
			r.violation(dir, what)
		}
		i = j + 1
	}
}
