package main

import (
	"fmt"
	"go/constant"
	"os"
	"os/exec"
	"path/filepath"
	"regexp"
	"strings"
	"time"

	"golang.org/x/tools/go/ssa"
)

// runC10: (1) write lemma [solver]: the open flags are read from the real SSA of derive.newPackage and fed to a
// POSIX open/write model with symbolic old/new file contents; (2) public-API stage [concrete, labelled]: the
// freshly built goderive is run on small packages and the directory is compared with a snapshot.
func runC10(r *Runner) {
	ld, err := loadProgram(r.S.Repo, []string{"./derive"}, goEnv())
	if err != nil {
		r.inconsistent("loading ./derive failed: " + err.Error())
		return
	}
	flags, how := -1, ""
	for _, p := range ld.Pkgs {
		root := p.Func("newPackage")
		if root == nil {
			continue
		}
		// newPackage and every function of package derive it reaches by static calls (a helper that does the
		// rewriting is found too); the writer of derived.gen.go itself ((*pkg).Print) is not reachable from it
		seen := map[*ssa.Function]bool{root: true}
		work := []*ssa.Function{root}
		for len(work) > 0 {
			fn := work[0]
			work = work[1:]
			for _, b := range fn.Blocks {
				for _, in := range b.Instrs {
					c, ok := in.(ssa.CallInstruction)
					if !ok {
						continue
					}
					sc := c.Common().StaticCallee()
					if sc == nil || sc.Pkg == nil {
						continue
					}
					if sc.Pkg == p && !seen[sc] && sc.Blocks != nil {
						seen[sc] = true
						work = append(work, sc)
						continue
					}
					if sc.Pkg.Pkg.Path() != "os" {
						continue
					}
					where := "derive." + fn.Name()
					switch sc.Name() {
					case "OpenFile":
						if k, ok := c.Common().Args[1].(*ssa.Const); ok {
							v, _ := constant.Int64Val(k.Value)
							flags, how = int(v), "os.OpenFile flag constant in "+where
						} else {
							how = "os.OpenFile with a non-constant flag argument in " + where
						}
					case "Create":
						flags, how = 0x2|0x40|0x200, "os.Create in "+where+" (O_RDWR|O_CREATE|O_TRUNC)"
					case "WriteFile":
						flags, how = 0x1|0x40|0x200, "os.WriteFile in "+where+" (O_WRONLY|O_CREATE|O_TRUNC)"
					}
				}
			}
		}
	}
	if flags < 0 {
		r.inconsistent("cannot find how derive.newPackage opens the user file for rewriting (" + how + ")")
		return
	}
	r.Extra["open_flags"] = map[string]interface{}{"value": flags, "source": how}
	r.AfterInject = func() {
		os.WriteFile(filepath.Join(r.S.Repo, "derive", "zz_vx_c10_flags.go"), []byte(fmt.Sprintf("package derive\n\nconst vxOpenFlags = %d // %s\n", flags, how)), 0o644)
	}
	defer func() { r.AfterInject = nil }()
	r.ReplayOverride = func(hr *HarnessResult) string { return c10Shrink(r) }
	r.modeB("derive", "^VX_C10_", false, Bounds{SliceLen: 6, SpareCap: 0, MapLen: 1, StrLen: 1, PtrDepth: 1, Unwind: 10, CallDepth: 3})
	r.ReplayOverride = nil
	// public API stage
	c10PublicAPI(r)
}

func gofmtSrc(src string) string {
	cmd := exec.Command("/opt/veriftools/go1.26.8/bin/gofmt")
	cmd.Stdin = strings.NewReader(src)
	out, err := cmd.Output()
	if err != nil {
		return "GOFMT-ERROR: " + err.Error()
	}
	return string(out)
}

const c10Types = "type A struct{ X int }\ntype B struct{ Y string }\n\n"

// c10Shrink: -dedup renames a long call name to a shorter one; the user file must become exactly gofmt(renamed source).
func c10Shrink(r *Runner) string {
	rel := "vxfix/c10/shrink"
	dir := filepath.Join(r.S.Repo, rel)
	os.MkdirAll(dir, 0o755)
	src := "package shrink\n\n" + c10Types + "func f(a, b *A) bool { return deriveEqual(a, b) }\n\nfunc g(a, b *A) bool { return deriveEqualWithAVeryLongNameIndeed(a, b) }\n"
	os.WriteFile(filepath.Join(dir, "x.go"), []byte(src), 0o644)
	out, code, _ := runCmd(r.S.Repo, goEnv(), 2*time.Minute, r.S.Goderive, "-dedup", "./"+rel)
	if code != 0 {
		return "no-outcome: goderive -dedup failed: " + trunc(out, 200)
	}
	got, _ := os.ReadFile(filepath.Join(dir, "x.go"))
	want := gofmtSrc(strings.Replace(src, "deriveEqualWithAVeryLongNameIndeed", "deriveEqual", 1))
	if string(got) != want {
		return fmt.Sprintf("assert-failed [public API: after goderive -dedup the user file is not gofmt(renamed source): %d bytes, want %d; tail %q]", len(got), len(want), tail(string(got), 40))
	}
	return "passed"
}

func tail(s string, n int) string {
	if len(s) > n {
		return s[len(s)-n:]
	}
	return s
}

func snapshotDir(dir string) map[string]string {
	m := map[string]string{}
	filepath.Walk(dir, func(p string, info os.FileInfo, err error) error {
		if err == nil && !info.IsDir() {
			b, _ := os.ReadFile(p)
			rel, _ := filepath.Rel(dir, p)
			m[rel] = info.Mode().String() + "\x00" + string(b)
		}
		return nil
	})
	return m
}

func c10PublicAPI(r *Runner) {
	type sc struct {
		name  string
		files map[string]string
		flags []string
		// expect: which files may change and to what (nil = unchanged)
		expect map[string]string
		failOK bool
	}
	notFmt := "package %s\n\nvar   table=map[string]int{\"a\":1,\n \"b\":2}\n\nfunc   helper( x int )int{ return x+1 }\n"
	aSrc := "package %s\n\n" + c10Types + "func f(a, b *A) bool { return deriveEqual(a, b) }\n\nfunc g(a, b *B) bool { return deriveEqual(a, b) }\n"
	scs := []sc{
		{name: "noflags", files: map[string]string{"a.go": fmt.Sprintf("package noflags\n\n" + c10Types + "func   f(a, b *A) bool { return deriveEqual(a, b) }\n"), "b.go": fmt.Sprintf(notFmt, "noflags")}},
		{name: "noflagsfail", files: map[string]string{"a.go": fmt.Sprintf(aSrc, "noflagsfail"), "b.go": fmt.Sprintf(notFmt, "noflagsfail")}, failOK: true},
		{name: "autoname", files: map[string]string{"a.go": fmt.Sprintf(aSrc, "autoname"), "b.go": fmt.Sprintf(notFmt, "autoname"), "c_test.go": "package autoname\n\nimport \"testing\"\n\nfunc   TestX(t *testing.T){ }\n"}, flags: []string{"-autoname"},
			expect: map[string]string{"a.go": "RENAMED"}},
		// a generated-looking file (goyacc style) whose //line directive before the package clause names another
		// existing file: the file that holds the renamed call is rewritten, the named file is not touched
		{name: "linedirective", files: map[string]string{"types.go": "package linedirective\n\n" + c10Types + "func f(a, b *A) bool { return deriveEqual(a, b) }\n",
			"y.go": "//line expr.y:2\npackage linedirective\n\nfunc g(a, b *B) bool { return deriveEqual(a, b) }\n", "expr.y": "%{\npackage linedirective\n%}\n%%\ntop: ;\n"}, flags: []string{"-autoname"},
			expect: map[string]string{"y.go": "RENAMED"}},
		// a renamed call at the start of a continuation line: the line break must survive
		{name: "multiline", files: map[string]string{"a.go": fmt.Sprintf("package multiline\n\n"+c10Types+"func f(a, b *A, c, d *B) bool {\n\treturn deriveEqual(a, b) &&\n\t\tderiveEqual(c, d)\n}\n")}, flags: []string{"-autoname"},
			expect: map[string]string{"a.go": "RENAMEDARGS:a, b|c, d"}},
		// a rename that is only decided in a later generation pass (the argument of the first deriveSort is typed
		// once deriveKeys exists): the user file is rewritten from a re-loaded AST and must keep every comment
		{name: "latepass", files: map[string]string{"x.go": "// Package latepass has comments that must survive a rewrite.\npackage latepass\n\n// keys returns the sorted keys.\nfunc keys(m map[string]int) []string {\n\tks := deriveKeys(m) // typed only after a first pass\n\treturn deriveSort(ks)\n}\n\n// ints uses the same derive name for another argument type.\nfunc ints(xs []int) []int {\n\t// a comment inside the body\n\treturn deriveSort(xs)\n}\n"}, flags: []string{"-autoname"},
			expect: map[string]string{"x.go": "RENAMEDARGS:ks|xs"}},
	}
	var rows []map[string]interface{}
	for _, s := range scs {
		rel := "vxfix/c10/" + s.name
		dir := filepath.Join(r.S.Repo, rel)
		os.MkdirAll(dir, 0o755)
		for n, c := range s.files {
			os.WriteFile(filepath.Join(dir, n), []byte(c), 0o644)
		}
		before := snapshotDir(dir)
		out, code, _ := runCmd(r.S.Repo, goEnv(), 2*time.Minute, r.S.Goderive, append(append([]string{}, s.flags...), "./"+rel)...)
		after := snapshotDir(dir)
		row := map[string]interface{}{"scenario": s.name, "flags": s.flags, "exit": code}
		var problems []string
		if code != 0 && !s.failOK {
			problems = append(problems, "goderive failed: "+trunc(out, 200))
		}
		for n, a := range after {
			if n == "derived.gen.go" {
				continue
			}
			b, existed := before[n]
			if !existed {
				problems = append(problems, "created "+n)
				continue
			}
			if a == b {
				continue
			}
			if want, ok := s.expect[n]; ok && want == "RENAMED" {
				// must be gofmt of the original with only the call identifier substituted
				content := a[strings.Index(a, "\x00")+1:]
				orig := s.files[n]
				// whatever fresh name the generator chose: read it from the rewritten call site and require the file to
				// be exactly gofmt(original with that identifier substituted at the last deriveEqual call)
				okRen := false
				if m := regexp.MustCompile(`return (\w+)\(a, b\)`).FindAllStringSubmatch(content, -1); len(m) > 0 {
					nn := m[len(m)-1][1]
					idx := strings.LastIndex(orig, "deriveEqual(")
					cand := orig[:idx] + nn + orig[idx+len("deriveEqual"):]
					okRen = nn != "deriveEqual" && gofmtSrc(cand) == content
				}
				if !okRen {
					problems = append(problems, n+" is not gofmt(original with the renamed identifier)")
				}
				continue
			}
			if want, ok := s.expect[n]; ok && strings.HasPrefix(want, "RENAMEDARGS:") {
				// several derive calls, identified by their argument text: the file must be gofmt(original with, for
				// each call, the identifier that now stands in front of that argument list)
				content := a[strings.Index(a, "\x00")+1:]
				cand := s.files[n]
				changed := false
				for _, arg := range strings.Split(strings.TrimPrefix(want, "RENAMEDARGS:"), "|") {
					re := regexp.MustCompile(`(\w+)\(` + regexp.QuoteMeta(arg) + `\)`)
					mo, mn := re.FindStringSubmatchIndex(cand), re.FindStringSubmatch(content)
					if mo == nil || mn == nil {
						cand = "CALL-NOT-FOUND " + arg
						break
					}
					if cand[mo[2]:mo[3]] != mn[1] {
						changed = true
					}
					cand = cand[:mo[2]] + mn[1] + cand[mo[3]:]
				}
				if !changed || gofmtSrc(cand) != content {
					problems = append(problems, n+" is not gofmt(original with the renamed identifiers): comments or declarations lost or changed")
				}
				continue
			}
			problems = append(problems, "modified "+n)
		}
		for n := range before {
			if _, ok := after[n]; !ok {
				problems = append(problems, "deleted "+n)
			}
		}
		row["problems"] = problems
		rows = append(rows, row)
		if len(problems) > 0 {
			dirR := saveReplay(r.S, r.Spec.ID, rel, &Model{Harness: "publicapi_" + s.name}, strings.Join(problems, "; "))
			r.violation(dirR, fmt.Sprintf("goderive %v on %s: %s", s.flags, s.name, strings.Join(problems, "; ")))
		}
	}
	// a package that holds nothing but an old derived.gen.go, generated from a working directory that has a
	// derived.gen.go of its own: that file belongs to another package and must not be touched
	{
		outer := filepath.Join(r.S.Repo, "vxfix/c10/outer")
		os.MkdirAll(filepath.Join(outer, "p2"), 0o755)
		os.WriteFile(filepath.Join(outer, "x.go"), []byte("package outer\n\nfunc f(a, b []int) bool { return deriveEqual(a, b) }\n"), 0o644)
		runCmd(r.S.Repo, goEnv(), 2*time.Minute, r.S.Goderive, "./vxfix/c10/outer")
		os.WriteFile(filepath.Join(outer, "p2", "derived.gen.go"), []byte("// Code generated by goderive DO NOT EDIT.\n\npackage p2\n"), 0o644)
		before := snapshotDir(outer)
		_, code, _ := runCmd(outer, goEnv(), 2*time.Minute, r.S.Goderive, "./p2")
		after := snapshotDir(outer)
		var problems []string
		if _, had := before["derived.gen.go"]; had {
			if a, ok := after["derived.gen.go"]; !ok {
				problems = append(problems, "derived.gen.go of the working directory (another package) was deleted")
			} else if a != before["derived.gen.go"] {
				problems = append(problems, "derived.gen.go of the working directory (another package) was modified")
			}
		} else {
			problems = append(problems, "setup: the outer package was not generated")
		}
		if after["x.go"] != before["x.go"] {
			problems = append(problems, "x.go of the working directory was modified")
		}
		rows = append(rows, map[string]interface{}{"scenario": "onlyderived", "exit": code, "problems": problems})
		if len(problems) > 0 {
			dirR := saveReplay(r.S, r.Spec.ID, "vxfix/c10/outer", &Model{Harness: "publicapi_onlyderived"}, strings.Join(problems, "; "))
			r.violation(dirR, "goderive ./p2 (a directory holding only an old derived.gen.go) run from another package's directory: "+strings.Join(problems, "; "))
		}
	}
	r.Extra["public_api_scenarios"] = rows
	r.Samples = append(r.Samples, rows[0])
	r.stage("public-API scenarios compared with directory snapshots")
}
