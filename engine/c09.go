package main

import (
	"fmt"
	"go/types"
	"os"
	"path/filepath"
	"sort"
	"strings"
	"time"

	"golang.org/x/tools/go/ssa"
)

// runC09: (1) error-propagation lemma over every generator function of plugin/* (havoc mode),
// (2) concrete confirmation through the public API: fixtures with unsupported constituents must make
// goderive exit non-zero, never exit 0 with output that fails to parse/type-check.
func runC09(r *Runner) {
	// (0) finder gate: call.HasUndefined over a symbolic argument list (mode B)
	r.modeB("derive", "^VX_C09_", true, DefaultBounds)
	ld, err := loadProgram(r.S.Repo, []string{"./plugin/...", "./vxlib/vx"}, goEnv())
	if err != nil {
		r.inconsistent("loading plugin packages failed: " + err.Error())
		return
	}
	var fns []*ssa.Function
	for _, p := range ld.Pkgs {
		if !strings.Contains(p.Pkg.Path(), "/plugin/") {
			continue
		}
		var cand []*ssa.Function
		for _, m := range p.Members {
			if f, ok := m.(*ssa.Function); ok {
				cand = append(cand, f)
			}
			if t, ok := m.(*ssa.Type); ok {
				for _, recv := range []types.Type{t.Type(), types.NewPointer(t.Type())} {
					ms := ld.Prog.MethodSets.MethodSet(recv)
					for i := 0; i < ms.Len(); i++ {
						if f := ld.Prog.MethodValue(ms.At(i)); f != nil && f.Pkg == p && f.Synthetic == "" {
							cand = append(cand, f)
						}
					}
				}
			}
		}
		seen := map[*ssa.Function]bool{}
		for _, f := range cand {
			if seen[f] || f.Blocks == nil {
				continue
			}
			seen[f] = true
			res := f.Signature.Results()
			if res.Len() == 0 || !types.Identical(res.At(res.Len()-1).Type(), errorType) {
				continue
			}
			if callsErrorHelper(f) {
				fns = append(fns, f)
			}
		}
	}
	sort.Slice(fns, func(i, j int) bool { return fns[i].String() < fns[j].String() })
	r.stage(fmt.Sprintf("%d generator functions with error-returning helpers", len(fns)))
	results := make([]HavocResult, len(fns))
	pool := NewPool()
	defer pool.CloseAll()
	solverTimeout = 60 * time.Second
	parallel(len(fns), r.Workers, func(i int) {
		if r.Filter != nil && !r.Filter.MatchString(fns[i].String()) {
			results[i] = HavocResult{Fn: fns[i].String(), Status: "skipped"}
			return
		}
		results[i] = runHavoc(ld, fns[i], pool)
	})
	counts := map[string]int{}
	var swallow []HavocResult
	for _, hr := range results {
		counts[hr.Status]++
		if verbose {
			fmt.Fprintf(os.Stderr, "  havoc %-70s %-12s helpers=%v %s\n", strings.TrimPrefix(hr.Fn, modPath+"/"), hr.Status, hr.Helpers, hr.Detail)
		}
		if hr.Status == "swallows" {
			swallow = append(swallow, hr)
		}
		r.Results = append(r.Results, HarnessResult{Name: hr.Fn, Pkg: "plugin", Status: hr.Status, Terms: hr.Terms, SolveMs: hr.Ms,
			Funcs: map[string]int{hr.Fn: hr.Instrs}, Obls: []OblResult{{Kind: "reach", Label: "function executed", Status: "sat"}, {Kind: "assert", Label: "a failing helper makes the function fail", Status: map[string]string{"ok": "unsat", "swallows": "sat"}[hr.Status], Ms: hr.Ms}}})
	}
	r.Programs = len(fns)
	r.Extra["havoc_functions"] = results
	r.Extra["havoc_counts"] = counts
	r.stage(fmt.Sprintf("havoc lemma decided: %v", counts))
	// (2) confirmation through the public API
	confirmed := r.c09Fixtures()
	for _, hr := range swallow {
		plugin := pluginOf(hr.Fn)
		key := strings.TrimPrefix(hr.Fn, modPath+"/")
		if f := r.Known.matchKey(r.Spec.ID, key); f != nil {
			if fx, ok := confirmed[plugin]; ok {
				r.known(f, fmt.Sprintf("%s drops a helper's error (reproduced: goderive exits 0 on %s and leaves a file that does not type-check)", key, fx))
			} else {
				r.known(f, key+" drops a helper's error")
			}
			continue
		}
		if fx, ok := confirmed[plugin]; ok {
			dir := saveReplay(r.S, r.Spec.ID, fx, &Model{Harness: "swallow_" + sanitize(key)}, key+" returns nil although a helper failed; goderive exit 0 with ill-typed output on "+fx)
			r.violation(dir, fmt.Sprintf("%s returns nil although a helper returned an error; reproduced through the public API: goderive exits 0 on fixture %s and the package no longer type-checks", key, fx))
		} else {
			r.inconsistent(fmt.Sprintf("UNCONFIRMED: %s can return nil although a helper failed (solver), but no fixture with an unsupported constituent reproduces a bad exit through the public API", key))
		}
	}
	for plugin, fx := range confirmed {
		// a confirmed bad exit whose plugin has no swallowing function found by the lemma is still a violation
		found := false
		for _, hr := range swallow {
			if pluginOf(hr.Fn) == plugin {
				found = true
			}
		}
		if !found {
			if f := r.Known.matchKey(r.Spec.ID, "fixture:"+plugin); f != nil {
				r.known(f, f.What)
				continue
			}
			what := "exits 0 and the package does not type-check"
			if w, ok := howBad[fx]; ok {
				what = w
			}
			dir := saveReplay(r.S, r.Spec.ID, fx, &Model{Harness: "badexit_" + plugin}, "goderive "+what+" on "+fx)
			r.violation(dir, fmt.Sprintf("goderive %s on fixture %s (unsupported input)", what, fx))
		}
	}
}

func pluginOf(fn string) string {
	i := strings.Index(fn, "/plugin/")
	if i < 0 {
		return ""
	}
	rest := fn[i+len("/plugin/"):]
	for j, c := range rest {
		if c == '.' || c == ')' || c == '/' {
			return rest[:j]
		}
	}
	return rest
}

func (kf *KnownFile) matchKey(prop, key string) *KnownFinding {
	for i := range kf.Findings {
		f := &kf.Findings[i]
		if f.Property == prop && f.Status == "open" && f.Match != "" && strings.Contains(key, f.Match) {
			return f
		}
	}
	return nil
}

func callsErrorHelper(f *ssa.Function) bool {
	for _, b := range f.Blocks {
		for _, in := range b.Instrs {
			c, ok := in.(ssa.CallInstruction)
			if !ok {
				continue
			}
			cc := c.Common()
			if _, isB := cc.Value.(*ssa.Builtin); isB {
				continue
			}
			if sc := cc.StaticCallee(); sc != nil && isLibraryFn(sc) {
				continue
			}
			if cc.IsInvoke() && cc.Method.Pkg() != nil && !strings.Contains(cc.Method.Pkg().Path(), ".") {
				continue
			}
			res := cc.Signature().Results()
			for i := 0; i < res.Len(); i++ {
				if types.Identical(res.At(i).Type(), errorType) {
					return true
				}
			}
		}
	}
	return false
}

// c09Fixtures runs goderive on packages with an unsupported constituent per plugin; returns, per plugin,
// a fixture on which goderive exits 0 and leaves a package that does not type-check.
// howBad: fixture -> what went wrong, for fixtures that did not simply exit 0 with ill-typed output
var howBad = map[string]string{}

func (r *Runner) c09Fixtures() map[string]string {
	type fx struct {
		plugin, name, src string
		sub               map[string]string // sibling packages: relative file -> content
	}
	var fxs []fx
	// (an unnamed struct that is not ==-comparable is not "unsupported" by nature: it must be handled or rejected, not loop)
	unsup := map[string]string{"chan": "chan int", "func": "func()", "iface": "interface{ M() }", "anon": "struct{ A []int }"}
	calls := map[string]string{
		"equal":    "func use(a, b *T) bool { return deriveEqual(a, b) }",
		"compare":  "func use(a, b *T) int { return deriveCompare(a, b) }",
		"hash":     "func use(a *T) uint64 { return deriveHash(a) }",
		"deepcopy": "func use(a, b *T) { deriveDeepCopy(a, b) }",
		"clone":    "func use(a *T) *T { return deriveClone(a) }",
		"gostring": "func use(a *T) string { return deriveGoString(a) }",
	}
	for plugin, call := range calls {
		for uk, ut := range unsup {
			for pos, decl := range map[string]string{"field": "type T struct {\n\tA int\n\tX %s\n}", "elem": "type T struct {\n\tA int\n\tX []%s\n}", "mapval": "type T struct {\n\tA int\n\tX map[string]%s\n}",
				"arr": "type T struct {\n\tA int\n\tX [2]%s\n}", "ptr": "type T struct {\n\tA int\n\tX *%s\n}", "ptrarr": "type T struct {\n\tA int\n\tX *[2]%s\n}"} {
				name := fmt.Sprintf("%s_%s_%s", plugin, uk, pos)
				fxs = append(fxs, fx{plugin, name, fmt.Sprintf("package %s\n\n"+decl+"\n\n%s\n", name, ut, call), nil})
			}
		}
	}
	// finder side: calls whose LATER arguments are not known yet (nested derive call) or never will be
	// (undefined function); the first kind must generate a well-typed package, the second must be rejected
	for name, body := range map[string]string{
		"finder_nested_second":   "func use(m map[string]int) (int, []string) { return deriveTuple(len(m), deriveSort(deriveKeys(m)))() }",
		"finder_nested_third":    "func use(m map[string]int) (int, string, []string) { return deriveTuple3(len(m), \"a\", deriveSort(deriveKeys(m)))() }",
		"finder_undefined_later": "func use(m map[string]int) { deriveTupleU(1, undefinedThing(m)) }",
		"finder_undefined_first": "func use(m map[string]int) { deriveTupleU(undefinedThing(m), 1) }",
		"finder_undefined_mixed": "func ok(a, b []int) bool { return deriveEqual(a, b) }\n\nfunc use() bool { return deriveEqual(undefinedThing, 1) }",
	} {
		fxs = append(fxs, fx{"finder", name, fmt.Sprintf("package %s\n\n%s\n", name, body), nil})
	}
	// argument validation: non-function arguments, wrong arity, mismatched argument types, unordered types for
	// min/max/sort, variadic signatures, unhashable elements. Each must be rejected with a diagnostic, or be
	// accepted with output that type-checks; never a panic, a hang, or exit 0 with an ill-typed package.
	pre := "var errX error = &A{}\n\nfunc (a *A) Error() string { return \"x\" }\n\ntype A struct{ X int }\n\ntype B struct{ Y string }\n\ntype NBool bool\n\nfunc one(a int) int { return a }\n\nfunc zero() int { return 0 }\n\nfunc two(a int, b string) bool { return a > len(b) }\n\nfunc vari(a int, bs ...string) int { return a + len(bs) }\n\nfunc ferr() (int, error) { return 0, nil }\n\nfunc serr(s string) (int, error) { return len(s), nil }\n\n"
	for name, body := range map[string]string{
		"flip_one":           "func use() { _ = deriveFlip(one) }",
		"flip_zero":          "func use() { _ = deriveFlip(zero) }",
		"flip_nonfunc":       "func use() { _ = deriveFlip(3) }",
		"flip_variadic":      "func use() { _ = deriveFlip(vari) }",
		"curry_one":          "func use() { _ = deriveCurry(one) }",
		"curry_nonfunc":      "func use() { _ = deriveCurry(\"x\") }",
		"curry_variadic":     "func use() { _ = deriveCurry(vari) }",
		"uncurry_flat":       "func use() { _ = deriveUncurry(one) }",
		"apply_one":          "func use() { _ = deriveApply(one, 1) }",
		"apply_mismatch":     "func use() { _ = deriveApply(two, 3.5) }",
		"apply_nonfunc":      "func use() { _ = deriveApply(3, 4) }",
		"min_bool":           "func use(a, b bool) bool { return deriveMin(a, b) }",
		"max_bool":           "func use(a, b bool) bool { return deriveMax(a, b) }",
		"min_complex":        "func use(a, b complex128) complex128 { return deriveMin(a, b) }",
		"min_listbool":       "func use(l []bool, d bool) bool { return deriveMin(l, d) }",
		"min_func":           "func use() { _ = deriveMin(one, one) }",
		"min_untyped":        "func use() int { return deriveMin(1, 2) }",
		"min_untypedbool":    "func use() bool { return deriveMin(true, false) }",
		"max_listcomplex":    "func use(l []complex64, d complex64) complex64 { return deriveMax(l, d) }",
		"sort_bool":          "func use() []bool { return deriveSort([]bool{true, false}) }",
		"sort_namedbool":     "func use() []NBool { return deriveSort([]NBool{true, false}) }",
		"sort_complex":       "func use() []complex128 { return deriveSort([]complex128{1i}) }",
		"sort_func":          "func use() { _ = deriveSort([]func(){}) }",
		"sort_nonslice":      "func use() { _ = deriveSort(3) }",
		"keys_nonmap":        "func use() { _ = deriveKeys([]int{1}) }",
		"keys_two":           "func use() { _ = deriveKeys(map[int]int{}, 1) }",
		"equal_three":        "func use(a, b *A) { _ = deriveEqual(a, b, a) }",
		"equal_mismatch":     "func use(a *A, b *B) { _ = deriveEqual(a, b) }",
		"equal_none":         "func use() { _ = deriveEqual() }",
		"compare_mismatch":   "func use() { _ = deriveCompare(1, \"a\") }",
		"compare_three":      "func use(a *A) { _ = deriveCompare(a, a, a) }",
		"hash_two":           "func use(a *A) { _ = deriveHash(a, a) }",
		"hash_none":          "func use() { _ = deriveHash() }",
		"deepcopy_mismatch":  "func use(a *A, b *B) { deriveDeepCopy(a, b) }",
		"deepcopy_value":     "func use(a, b A) { deriveDeepCopy(a, b) }",
		"deepcopy_one":       "func use(a *A) { deriveDeepCopy(a) }",
		"clone_func":         "func use() { _ = deriveClone(one) }",
		"clone_two":          "func use(a *A) { _ = deriveClone(a, a) }",
		"gostring_two":       "func use(a *A) { _ = deriveGoString(a, a) }",
		"fmap_nonfunc":       "func use() { _ = deriveFmap(3, []int{1}) }",
		"fmap_wrongelem":     "func use() { _ = deriveFmap(func(s string) int { return len(s) }, []int{1}) }",
		"fmap_nonlist":       "func use() { _ = deriveFmap(one, 3) }",
		"fmap_twoparams":     "func use() { _ = deriveFmap(two, []int{1}) }",
		"join_nonslice":      "func use() { _ = deriveJoin(3) }",
		"join_flat":          "func use() { _ = deriveJoin([]int{1}) }",
		"filter_badpred":     "func use() { _ = deriveFilter(one, []int{1}) }",
		"filter_wrongelem":   "func use() { _ = deriveFilter(func(s string) bool { return s == \"\" }, []int{1}) }",
		"takewhile_badpred":  "func use() { _ = deriveTakeWhile(one, []int{1}) }",
		"all_badpred":        "func use() { _ = deriveAll(one, []int{1}) }",
		"any_nonfunc":        "func use() { _ = deriveAny(3, []int{1}) }",
		"compose_mismatch":   "func use() { _ = deriveCompose(ferr, serr) }",
		"compose_noerr":      "func use() { _ = deriveCompose(zero, one) }",
		"compose_one":        "func use() { _ = deriveCompose(ferr) }",
		"mem_nonfunc":        "func use() { _ = deriveMem(3) }",
		"mem_variadic":       "func use() { _ = deriveMem(vari) }",
		"mem_funcparam":      "func use() { _ = deriveMem(func(f func()) int { return 0 }) }",
		"apply_variadic":     "func use() { _ = deriveApply(vari, \"x\") }",
		"uncurry_variadic":   "func use() { _ = deriveUncurry(func(a int) func(bs ...string) int { return nil }) }",
		"toerror_variadic":   "func use() { _ = deriveToError(errX, func(a int, bs ...string) (int, bool) { return 0, true }) }",
		"do_nonfunc":         "func use() { _, _, _ = deriveDo(3, 4) }",
		"do_noerr":           "func use() { _, _, _ = deriveDo(zero, zero) }",
		"do_one":             "func use() { _, _ = deriveDo(ferr) }",
		"tuple_none":         "func use() { _ = deriveTuple() }",
		"tuple_nil":          "func use() { _ = deriveTuple(1, nil) }",
		"toerror_noresult":   "func use() { _ = deriveToError(errX, zero) }",
		"toerror_nonfunc":    "func use() { _ = deriveToError(errX, 3) }",
		"toerror_nobool":     "func use() { _ = deriveToError(errX, one) }",
		"toerror_noterror":   "func use() { _ = deriveToError(3, func(a int) (int, bool) { return a, true }) }",
		"traverse_nonfunc":   "func use() { _, _ = deriveTraverse(3, []int{1}) }",
		"traverse_noerr":     "func use() { _, _ = deriveTraverse(one, []int{1}) }",
		"unique_func":        "func use() { _ = deriveUnique([]func(){}) }",
		"unique_nonslice":    "func use() { _ = deriveUnique(3) }",
		"set_func":           "func use() { _ = deriveSet([]func(){}) }",
		"contains_mismatch":  "func use() { _ = deriveContains([]int{1}, \"a\") }",
		"contains_func":      "func use() { _ = deriveContains([]func(){}, zero) }",
		"intersect_mismatch": "func use() { _ = deriveIntersect([]int{1}, []string{\"a\"}) }",
		"union_mismatch":     "func use() { _ = deriveUnion([]int{1}, map[int]struct{}{}) }",
		"dup_nonchan":        "func use() { _, _ = deriveDup(3) }",
		"pipeline_mismatch":  "func use() { _ = derivePipeline(func(a int) <-chan string { return nil }, func(b int) <-chan int { return nil }) }",
	} {
		fxs = append(fxs, fx{"arg:" + name, "arg_" + name, fmt.Sprintf("package arg_%s\n\n%s%s\n", name, pre, body), nil})
	}
	// termination: user packages named like a standard-library package the generated file imports as well (the
	// import-alias search must end); must generate and type-check
	for _, std := range []string{"math", "sort", "bytes"} {
		name := "samename_" + std
		call := map[string]string{"math": "func use(v *" + std + ".Vec) uint64 { return deriveHash(v) }", "sort": "func use(v *sort.Vec, l []string) (bool, []string) { return deriveEqual(v, v), deriveSort(l) }",
			"bytes": "type W struct {\n\tV *bytes.Vec\n\tB []byte\n}\n\nfunc use(a, b *W) bool { return deriveEqual(a, b) }"}[std]
		fxs = append(fxs, fx{"samename:" + std, name, fmt.Sprintf("package %s\n\nimport \"%s/vxfix/c09/%s/%s\"\n\n%s\n", name, modPath, name, std, call),
			map[string]string{std + "/vec.go": "package " + std + "\n\ntype Vec struct {\n\tX, Y float64\n}\n"}})
	}
	sort.Slice(fxs, func(i, j int) bool { return fxs[i].name < fxs[j].name })
	type out struct {
		code    int
		bad     bool
		timeout bool
		panicky bool
		msg     string
	}
	outs := make([]out, len(fxs))
	parallel(len(fxs), r.Workers, func(i int) {
		rel := "vxfix/c09/" + fxs[i].name
		dir := filepath.Join(r.S.Repo, rel)
		os.MkdirAll(dir, 0o755)
		os.WriteFile(filepath.Join(dir, "x.go"), []byte(fxs[i].src), 0o644)
		for f, c := range fxs[i].sub {
			os.MkdirAll(filepath.Dir(filepath.Join(dir, f)), 0o755)
			os.WriteFile(filepath.Join(dir, f), []byte(c), 0o644)
		}
		o, code, err := runCmd(r.S.Repo, goEnv(), 2*time.Minute, r.S.Goderive, "./"+rel)
		outs[i] = out{code: code, msg: trunc(o, 300)}
		if err != nil && code == -2 {
			outs[i].timeout = true
		}
		if strings.Contains(o, "panic:") || strings.Contains(o, "goroutine ") {
			outs[i].panicky = true
		}
	})
	var pats []string
	for i, f := range fxs {
		if outs[i].code == 0 {
			pats = append(pats, "./vxfix/c09/"+f.name)
		}
	}
	bad := map[string]string{}
	if len(pats) > 0 {
		bad = typeCheck(r.S.Repo, pats, goEnv())
	}
	confirmed := map[string]string{}
	nonzero, exit0ok := 0, 0
	var rows []map[string]interface{}
	for i, f := range fxs {
		rel := "vxfix/c09/" + f.name
		_, illTyped := bad[modPath+"/"+rel]
		row := map[string]interface{}{"fixture": f.name, "exit": outs[i].code, "ill_typed_output": illTyped}
		rows = append(rows, row)
		switch {
		case outs[i].timeout || outs[i].panicky:
			if _, ok := confirmed[f.plugin]; !ok {
				confirmed[f.plugin] = rel
				if outs[i].timeout {
					howBad[rel] = "does not terminate within 2 minutes"
				} else {
					howBad[rel] = "panics (" + trunc(outs[i].msg, 120) + ")"
				}
			}
		case outs[i].code != 0:
			nonzero++
		case illTyped:
			if _, ok := confirmed[f.plugin]; !ok {
				confirmed[f.plugin] = rel
			}
		default:
			exit0ok++
		}
	}
	r.Extra["public_api_fixtures"] = map[string]interface{}{"total": len(fxs), "rejected_with_diagnostic": nonzero, "accepted_and_well_typed": exit0ok, "exit0_ill_typed_by_plugin": confirmed}
	if len(rows) > 6 {
		rows = rows[:6]
	}
	r.Samples = append(r.Samples, map[string]interface{}{"public_api_fixture_rows": rows})
	r.stage(fmt.Sprintf("public-API fixtures: %d rejected, %d fine, bad exit for plugins %v", nonzero, exit0ok, confirmed))
	return confirmed
}
