package main

import (
	"encoding/json"
	"flag"
	"fmt"
	"os"
	"regexp"
	"runtime/debug"
	"sort"
	"strings"
	"sync"
	"time"

	"golang.org/x/tools/go/packages"
	"golang.org/x/tools/go/ssa"
	"golang.org/x/tools/go/ssa/ssautil"
)

var solverTimeout = 60 * time.Second
var execBudget = 90 * time.Second
var harnessBudget = 6 * time.Minute
var verbose, noSolve bool

type OblResult struct {
	Kind    string            `json:"kind"`
	Label   string            `json:"label"`
	Pos     string            `json:"pos,omitempty"`
	Fn      string            `json:"fn,omitempty"`
	Status  string            `json:"status"` // unsat | sat | unknown | timeout | error | trivial
	Solver  string            `json:"solver,omitempty"`
	Ms      int64             `json:"ms"`
	Nodes   int               `json:"nodes"`
	Model   *Model            `json:"model,omitempty"`
	Env     map[string]uint64 `json:"-"`
	Second  string            `json:"second_solver,omitempty"`
	Status2 string            `json:"second_status,omitempty"`
}

type Model struct {
	Harness string           `json:"harness"`
	Pkg     string           `json:"pkg"`
	Obl     string           `json:"obligation"`
	Nondets map[string][]*JV `json:"nondets"`
}

type HarnessResult struct {
	Name        string         `json:"name"`
	Pkg         string         `json:"pkg"`
	Status      string         `json:"status"` // ok | violation | inconclusive | vacuous | unsupported
	Detail      string         `json:"detail,omitempty"`
	Obls        []OblResult    `json:"obligations"`
	Funcs       map[string]int `json:"functions"`
	ExecMs      int64          `json:"exec_ms"`
	SolveMs     int64          `json:"solve_ms"`
	Terms       int            `json:"terms"`
	Steps       int            `json:"ssa_steps"`
	Assumptions int            `json:"assumptions"`
	Abstraction string         `json:"abstraction,omitempty"`
	// Reduced: the registered (thorough) bounds could not be decided in the budget (solver timeout / unknown /
	// execution or solving budget); the harness was decided again at the fallback (quick) bounds. The verdict
	// then only holds for those smaller bounds, which are recorded here.
	Reduced string `json:"reduced_bound,omitempty"`
}

type Loaded struct {
	Prog *ssa.Program
	Pkgs []*ssa.Package
	PP   []*packages.Package
	Bad  map[string]string
}

func loadProgram(dir string, patterns []string, env []string) (*Loaded, error) {
	cfg := &packages.Config{
		Mode: packages.NeedName | packages.NeedFiles | packages.NeedCompiledGoFiles | packages.NeedImports |
			packages.NeedDeps | packages.NeedTypes | packages.NeedSyntax | packages.NeedTypesInfo | packages.NeedTypesSizes,
		Dir: dir,
		Env: env,
	}
	pp, err := packages.Load(cfg, patterns...)
	if err != nil {
		return nil, err
	}
	var goodPP []*packages.Package
	bad := map[string]string{}
	for _, p := range pp {
		var errs []string
		packages.Visit([]*packages.Package{p}, nil, func(q *packages.Package) {
			for _, e := range q.Errors {
				errs = append(errs, e.Error())
			}
		})
		if len(errs) > 0 {
			if len(errs) > 10 {
				errs = errs[:10]
			}
			bad[p.PkgPath] = strings.Join(errs, "\n")
			continue
		}
		goodPP = append(goodPP, p)
	}
	if len(goodPP) == 0 {
		var all []string
		for k, v := range bad {
			all = append(all, k+": "+v)
		}
		return nil, fmt.Errorf("load errors:\n%s", strings.Join(all, "\n"))
	}
	pp = goodPP
	prog, spkgs := ssautil.AllPackages(pp, ssa.InstantiateGenerics)
	var out []*ssa.Package
	for _, p := range spkgs {
		if p != nil {
			p.Build()
			out = append(out, p)
		}
	}
	for _, p := range prog.AllPackages() {
		if isVxPkg(p) || strings.HasPrefix(p.Pkg.Path(), modPath+"/") || p.Pkg.Path() == modPath {
			p.Build()
		}
	}
	return &Loaded{Prog: prog, Pkgs: out, PP: pp, Bad: bad}, nil
}

// typeCheck loads packages (syntax + types only) and returns the errors per package path.
func typeCheck(dir string, patterns []string, env []string) map[string]string {
	cfg := &packages.Config{
		Mode: packages.NeedName | packages.NeedFiles | packages.NeedCompiledGoFiles | packages.NeedImports |
			packages.NeedDeps | packages.NeedTypes | packages.NeedSyntax | packages.NeedTypesInfo | packages.NeedTypesSizes,
		Dir: dir,
		Env: env,
	}
	out := map[string]string{}
	pp, err := packages.Load(cfg, patterns...)
	if err != nil {
		for _, p := range patterns {
			out[modPath+"/"+strings.TrimPrefix(p, "./")] = err.Error()
		}
		return out
	}
	for _, p := range pp {
		var errs []string
		for _, e := range p.Errors {
			errs = append(errs, e.Error())
		}
		if len(errs) > 0 {
			if len(errs) > 8 {
				errs = errs[:8]
			}
			out[p.PkgPath] = strings.Join(errs, "\n")
		}
	}
	return out
}

type RunOpts struct {
	Bounds      Bounds
	Filter      *regexp.Regexp
	Workers     int
	Solvers     []string
	CrossCheck  bool
	DumpDir     string
	Opt         map[string]string // per-nondet option overrides
	AbstractMul bool
	Native      bool
	Conc        bool
	RunInit     bool // execute the package's variable initialisers before the harness
	Filter2     *regexp.Regexp
	Fallback    *Bounds // thorough tier: bounds to retry with when the main bounds end in a timeout/budget verdict
}

func runHarnesses(ld *Loaded, opts RunOpts) []HarnessResult {
	type job struct {
		fn *ssa.Function
	}
	var jobs []job
	for _, p := range ld.Pkgs {
		var names []string
		for n, m := range p.Members {
			if f, ok := m.(*ssa.Function); ok && strings.HasPrefix(n, "VX_") && !strings.HasPrefix(n, "VX_TV_") {
				if (opts.Filter == nil || opts.Filter.MatchString(n)) && (opts.Filter2 == nil || opts.Filter2.MatchString(n)) {
					names = append(names, f.Name())
				}
			}
		}
		sort.Strings(names)
		for _, n := range names {
			jobs = append(jobs, job{p.Func(n)})
		}
	}
	results := make([]HarnessResult, len(jobs))
	pool := NewPool()
	defer pool.CloseAll()
	var wg sync.WaitGroup
	ch := make(chan int)
	w := opts.Workers
	if w <= 0 {
		w = 8
	}
	for k := 0; k < w; k++ {
		wg.Add(1)
		go func() {
			defer wg.Done()
			for i := range ch {
				results[i] = runOne(ld, jobs[i].fn, opts, pool)
			}
		}()
	}
	for i := range jobs {
		ch <- i
	}
	close(ch)
	wg.Wait()
	return results
}

func runOne(ld *Loaded, fn *ssa.Function, opts RunOpts, pool *Pool) (res HarnessResult) {
	if opts.Fallback != nil {
		o := opts
		o.Fallback = nil
		first := runOne(ld, fn, o, pool)
		limit := first.Status == "unsupported" && (strings.Contains(first.Detail, "more than") || strings.Contains(first.Detail, "budget exceeded")) // an engine limit (map slots, events, goroutines, execution budget)
		if !limit && (first.Status != "inconclusive" || !(strings.Contains(first.Detail, "timeout") || strings.Contains(first.Detail, "unknown") || strings.Contains(first.Detail, "budget"))) {
			return first
		}
		o.Bounds = *opts.Fallback
		second := runOne(ld, fn, o, pool)
		second.ExecMs += first.ExecMs
		second.SolveMs += first.SolveMs
		second.Reduced = fmt.Sprintf("undecided at %+v (%s); decided at %+v", opts.Bounds, first.Detail, *opts.Fallback)
		return second
	}
	if opts.AbstractMul {
		a := runOneMode(ld, fn, opts, pool, true)
		if a.Status == "ok" {
			a.Abstraction = "mul-by-constant as UF: proved"
			return a
		}
		c := runOneMode(ld, fn, opts, pool, false)
		c.Abstraction = "mul-by-constant as UF gave " + a.Status + "; re-decided with real multiplication"
		c.ExecMs += a.ExecMs
		c.SolveMs += a.SolveMs
		return c
	}
	return runOneMode(ld, fn, opts, pool, false)
}

func runOneMode(ld *Loaded, fn *ssa.Function, opts RunOpts, pool *Pool, abstractMul bool) (res HarnessResult) {
	res = HarnessResult{Name: fn.Name(), Pkg: fn.Pkg.Pkg.Path()}
	ex := NewExec(ld.Prog, opts.Bounds)
	ex.AbstractMul = abstractMul
	ex.pool = pool
	ex.deadline = time.Now().Add(execBudget)
	if opts.Native {
		ex.Native = NewNativeEnv()
	}
	if opts.Conc {
		ex.Conc = NewConcEnv(ex.ts)
	}
	ex.optOverride = opts.Opt
	t0 := time.Now()
	func() {
		defer func() {
			if r := recover(); r != nil {
				if u, ok := r.(unsupportedErr); ok {
					res.Status = "unsupported"
					res.Detail = u.msg
					return
				}
				if e, ok := r.(error); ok {
					if u, ok := e.(unsupportedErr); ok {
						res.Status = "unsupported"
						res.Detail = u.msg
						return
					}
				}
				res.Status = "unsupported"
				res.Detail = fmt.Sprintf("engine panic: %v\n%s", r, debug.Stack())
			}
		}()
		heap0 := Heap{}
		if opts.RunInit {
			if initFn := fn.Pkg.Func("init"); initFn != nil && initFn.Blocks != nil {
				ex.rootPkg = fn.Pkg
				_, heap0 = ex.callFunction(initFn, nil, nil, heap0, ex.ts.True, 0)
			}
		}
		ex.callFunction(fn, nil, nil, heap0, ex.ts.True, 0)
	}()
	if ex.Conc != nil && res.Status != "unsupported" {
		func() {
			defer func() {
				if r := recover(); r != nil {
					res.Status = "unsupported"
					res.Detail = fmt.Sprintf("schedule encoding: %v", r)
				}
			}()
			ex.finalizeConc()
			ex.Obls = append(ex.Obls, ex.Conc.Panics...)
			ex.Obls = append(ex.Obls, Obligation{Kind: "assert", Cond: ex.Conc.Deadlock, Label: "no deadlock / no goroutine left blocked (maximal schedules)"})
			ex.Obls = append(ex.Obls, Obligation{Kind: "assert", Cond: ex.Conc.Race, Label: "no data race on memory shared between goroutines"})
		}()
	}
	res.ExecMs = time.Since(t0).Milliseconds()
	if verbose {
		fmt.Fprintf(os.Stderr, "[%s] exec done %dms terms=%d obls=%d assumes=%d status=%s %s\n", fn.Name(), res.ExecMs, len(ex.ts.nodes), len(ex.Obls), len(ex.Assumes), res.Status, firstLine(res.Detail))
	}
	res.Funcs = ex.fnStats
	res.Terms = len(ex.ts.nodes)
	res.Steps = ex.steps
	res.Assumptions = len(ex.Assumes)
	if res.Status == "unsupported" {
		return
	}
	if noSolve {
		cnt := map[string]int{}
		for _, o := range ex.Obls {
			cnt[o.Kind+" "+o.Label+" "+o.Fn+" "+o.Pos]++
		}
		for k, v := range cnt {
			fmt.Fprintf(os.Stderr, "%5d %s\n", v, k)
		}
		res.Status = "ok"
		return
	}
	t1 := time.Now()
	res.Status = "ok"
	nAssert := 0
	// batch: all panic/unwind/bound obligations as one disjunction first
	batched := map[int]OblResult{}
	{
		var conds []*Term
		var idx []int
		for oi, o := range ex.Obls {
			if o.Kind == "panic" || o.Kind == "unwind" || o.Kind == "bound" {
				if o.Cond.IsFalse() {
					continue
				}
				conds = append(conds, o.Cond)
				idx = append(idx, oi)
			}
		}
		if len(conds) > 1 {
			bo := Obligation{Kind: "batch", Cond: ex.ts.Or(conds...), Label: "any panic/unwind/bound"}
			if opts.DumpDir != "" {
				dumpQuery(ex, bo, fmt.Sprintf("%s/%s_batch.smt2", opts.DumpDir, fn.Name()))
			}
			bo.Kind = "batchmodel"
			br := dischargeObl(ex, bo, opts, pool)
			if verbose {
				fmt.Fprintf(os.Stderr, "[%s] batch of %d panic/unwind/bound obligations -> %s (%s %dms nodes=%d)\n", fn.Name(), len(conds), br.Status, br.Solver, br.Ms, br.Nodes)
			}
			if br.Status == "sat" && br.Env != nil {
				// identify the violated obligation(s) from the model of the disjunction
				memo := map[int]uint64{}
				for _, oi := range idx {
					o := ex.Obls[oi]
					if v, err := ex.ts.Eval(o.Cond, br.Env, memo); err == nil && v == 1 {
						m := buildModel(ex, br.Env)
						batched[oi] = OblResult{Kind: o.Kind, Label: o.Label, Pos: o.Pos, Fn: o.Fn, Status: "sat", Solver: br.Solver + "(batch model)", Ms: br.Ms, Nodes: br.Nodes, Model: m}
						break
					}
				}
			}
			if br.Status == "unsat" {
				for k, oi := range idx {
					o := ex.Obls[oi]
					r := OblResult{Kind: o.Kind, Label: o.Label, Pos: o.Pos, Fn: o.Fn, Status: "unsat", Solver: br.Solver + "(batch)", Nodes: br.Nodes}
					if k == 0 {
						r.Ms = br.Ms
					}
					batched[oi] = r
				}
			}
		}
	}
	for oi, o := range ex.Obls {
		var or OblResult
		if b, ok := batched[oi]; ok {
			or = b
		} else if len(batched) > 0 && batchViolation(batched) && (o.Kind == "panic" || o.Kind == "unwind" || o.Kind == "bound") {
			or = OblResult{Kind: o.Kind, Label: o.Label, Pos: o.Pos, Fn: o.Fn, Status: "skipped"}
			res.Obls = append(res.Obls, or)
			continue
		} else if time.Since(t1) > harnessBudget {
			or = OblResult{Kind: o.Kind, Label: o.Label, Pos: o.Pos, Fn: o.Fn, Status: "skipped"}
			if res.Status == "ok" {
				res.Status = "inconclusive"
				res.Detail = fmt.Sprintf("harness solving budget (%s) exceeded with %d obligations left", harnessBudget, len(ex.Obls)-oi)
			}
			res.Obls = append(res.Obls, or)
			continue
		} else {
			or = dischargeObl(ex, o, opts, pool)
		}
		if o.Kind == "assert" {
			nAssert++
		}
		if verbose {
			fmt.Fprintf(os.Stderr, "[%s] obl %d/%d %s %q %s %s -> %s (%s %dms nodes=%d)\n", fn.Name(), oi+1, len(ex.Obls), o.Kind, o.Label, o.Fn, o.Pos, or.Status, or.Solver, or.Ms, or.Nodes)
		}
		if opts.DumpDir != "" {
			dumpQuery(ex, o, fmt.Sprintf("%s/%s_%d_%s.smt2", opts.DumpDir, fn.Name(), oi, o.Kind))
		}
		if or.Status == "sat" && o.Kind != "reach" && or.Model != nil {
			or.Model.Harness = fn.Name()
			or.Model.Pkg = res.Pkg
			or.Model.Obl = o.Kind + ": " + o.Label + " @" + o.Pos
		}
		res.Obls = append(res.Obls, or)
		switch {
		case o.Kind == "reach":
			if or.Status == "unsat" {
				if res.Status == "ok" {
					res.Status = "vacuous"
					res.Detail = "assertion unreachable: " + o.Label
				}
			} else if or.Status != "sat" && or.Status != "trivial" && res.Status == "ok" {
				res.Status = "inconclusive"
				res.Detail = "reachability " + or.Status + ": " + o.Label
			}
		case or.Status == "sat":
			if o.Kind == "unwind" || o.Kind == "bound" {
				if res.Status == "ok" {
					res.Status = "inconclusive"
					res.Detail = "bound too small: " + o.Label + " " + o.Fn + " " + o.Pos
				}
			} else {
				res.Status = "violation"
				res.Detail = o.Kind + ": " + o.Label + " @" + o.Fn + " " + o.Pos
			}
		case or.Status == "unsat" || or.Status == "trivial":
		default:
			if res.Status == "ok" {
				res.Status = "inconclusive"
				res.Detail = "solver " + or.Status + " on " + o.Kind + ": " + o.Label
			}
		}
	}
	if nAssert == 0 && res.Status == "ok" {
		res.Status = "vacuous"
		res.Detail = "no assertion reached"
	}
	res.SolveMs = time.Since(t1).Milliseconds()
	return
}

func batchViolation(b map[int]OblResult) bool {
	for _, r := range b {
		if r.Status == "sat" {
			return true
		}
	}
	return false
}

func queryParts(ex *Exec, o Obligation) (prefix string, asserts []string, vars []*Term, nodes int) {
	roots := append([]*Term{}, ex.Assumes...)
	roots = append(roots, o.Cond)
	reach := ex.ts.Reach(roots)
	nodes = len(reach)
	for _, t := range reach {
		if t.Op == OVar {
			vars = append(vars, t)
		}
	}
	prefix = ex.ts.Script(roots)
	for _, a := range ex.Assumes {
		if a.IsTrue() {
			continue
		}
		asserts = append(asserts, a.ref())
	}
	asserts = append(asserts, o.Cond.ref())
	return
}

func dumpQuery(ex *Exec, o Obligation, path string) {
	prefix, asserts, _, _ := queryParts(ex, o)
	var sb strings.Builder
	fmt.Fprintf(&sb, "; %s %s %s %s\n", o.Kind, o.Label, o.Fn, o.Pos)
	sb.WriteString(prefix)
	for _, a := range asserts {
		sb.WriteString("(assert " + a + ")\n")
	}
	sb.WriteString("(check-sat)\n")
	os.WriteFile(path, []byte(sb.String()), 0o644)
}

func dischargeObl(ex *Exec, o Obligation, opts RunOpts, pool *Pool) OblResult {
	or := OblResult{Kind: o.Kind, Label: o.Label, Pos: o.Pos, Fn: o.Fn}
	if o.Cond.IsFalse() {
		or.Status = "unsat"
		or.Solver = "simplifier"
		return or
	}
	if o.Kind == "reach" && o.Cond.IsTrue() && len(ex.Assumes) == 0 {
		or.Status = "sat"
		or.Solver = "simplifier"
		return or
	}
	prefix, asserts, vars, nodes := queryParts(ex, o)
	or.Nodes = nodes
	solvers := opts.Solvers
	if len(solvers) == 0 {
		solvers = []string{"z3sat", "cvc5", "z3-new", "z3"}
	}
	wantModel := vars
	if o.Kind == "reach" {
		wantModel = nil
	}
	finish := func(qr QueryResult) {
		or.Status = qr.Status
		or.Solver = qr.Solver
		or.Ms += qr.Time.Milliseconds()
		if qr.Status == "sat" && o.Kind != "reach" {
			or.Model = buildModel(ex, qr.Model)
			or.Env = qr.Model
		}
	}
	one := func(sn string, tmo time.Duration) QueryResult {
		s, err := pool.Get(sn)
		if err != nil {
			return QueryResult{Status: "error", Solver: sn, Raw: err.Error()}
		}
		qr := s.Check(prefix, asserts, wantModel, tmo)
		pool.Put(s)
		return qr
	}
	// stage 1: the fast path
	quick := 3 * time.Second
	if quick > solverTimeout {
		quick = solverTimeout
	}
	qr := one(solvers[0], quick)
	definite := func(q QueryResult) bool { return q.Status == "sat" || q.Status == "unsat" }
	if !definite(qr) && len(solvers) > 1 {
		or.Ms += qr.Time.Milliseconds()
		// stage 2: race the remaining solvers (and the first again with the full budget)
		type res struct {
			qr QueryResult
			s  *Solver
		}
		names := append(append([]string{}, solvers[1:]...), solvers[0])
		ch := make(chan res, len(names))
		var running []*Solver
		for _, sn := range names {
			s, err := pool.Get(sn)
			if err != nil {
				ch <- res{QueryResult{Status: "error", Solver: sn}, nil}
				continue
			}
			running = append(running, s)
			go func(s *Solver) {
				ch <- res{s.Check(prefix, asserts, wantModel, solverTimeout), s}
			}(s)
		}
		got := 0
		var last QueryResult
		won := false
		for got < len(names) {
			r := <-ch
			got++
			if r.s != nil {
				pool.Put(r.s)
			}
			if definite(r.qr) && !won {
				won = true
				last = r.qr
				for _, s := range running {
					if s != r.s {
						s.Abort()
					}
				}
			} else if !won {
				last = r.qr
			}
		}
		qr = last
	}
	finish(qr)
	if definite(qr) && opts.CrossCheck {
		// second opinion from a different solver
		for _, sn := range solvers {
			if sn == qr.Solver {
				continue
			}
			q2 := one(sn, solverTimeout)
			if definite(q2) {
				or.Second = q2.Solver
				or.Status2 = q2.Status
				if q2.Status != qr.Status {
					or.Status = "error"
				}
				break
			}
		}
	}
	return or
}

func buildModel(ex *Exec, env map[string]uint64) *Model {
	m := &Model{Nondets: map[string][]*JV{}}
	memo := map[int]uint64{}
	for _, nd := range ex.Nondets {
		g, err := ex.ts.Eval(nd.G, env, memo)
		if err != nil || g != 1 {
			continue
		}
		c := &concretizer{ex: ex, env: env, memo: memo, heap: nd.Heap}
		var jv *JV
		func() {
			defer func() {
				if r := recover(); r != nil {
					jv = &JV{K: "error", V: fmt.Sprint(r)}
				}
			}()
			jv = c.conc(nd.Val, nd.Typ)
		}()
		m.Nondets[nd.Name] = append(m.Nondets[nd.Name], jv)
	}
	return m
}

func cmdSymx(args []string) int {
	fs := flag.NewFlagSet("symx", flag.ExitOnError)
	dir := fs.String("dir", ".", "module directory")
	run := fs.String("run", "", "regexp filter on harness names")
	out := fs.String("json", "", "write results as JSON")
	dump := fs.String("dump", "", "dump SMT queries into this directory")
	workers := fs.Int("j", 8, "parallel harnesses")
	cross := fs.Bool("cross", false, "answer every query with two solvers")
	solvers := fs.String("solvers", "z3sat,cvc5,z3-new,z3", "solver order")
	b := DefaultBounds
	fs.IntVar(&b.SliceLen, "slice", b.SliceLen, "max slice len")
	fs.IntVar(&b.SpareCap, "spare", b.SpareCap, "max spare cap")
	fs.IntVar(&b.MapLen, "map", b.MapLen, "max map entries")
	fs.IntVar(&b.StrLen, "str", b.StrLen, "max string bytes")
	fs.IntVar(&b.PtrDepth, "depth", b.PtrDepth, "recursion depth")
	fs.IntVar(&b.Unwind, "unwind", b.Unwind, "loop unwinding")
	tmo := fs.Int("timeout", 60, "solver timeout seconds")
	absmul := fs.Bool("absmul", false, "abstract multiplication by constants as UF first")
	native := fs.Bool("native", false, "mode B: native go/types values")
	conc := fs.Bool("conc", false, "mode C: schedules as solver variables")
	fs.BoolVar(&verbose, "v", false, "verbose")
	fs.BoolVar(&noSolve, "nosolve", false, "only list obligations")
	fs.Parse(args)
	solverTimeout = time.Duration(*tmo) * time.Second
	ld, err := loadProgram(*dir, fs.Args(), os.Environ())
	if err != nil {
		fmt.Fprintln(os.Stderr, err)
		return 2
	}
	opts := RunOpts{Bounds: b, Workers: *workers, CrossCheck: *cross, DumpDir: *dump, Solvers: strings.Split(*solvers, ","), AbstractMul: *absmul, Native: *native, Conc: *conc}
	if *run != "" {
		opts.Filter = regexp.MustCompile(*run)
	}
	if *dump != "" {
		os.MkdirAll(*dump, 0o755)
	}
	res := runHarnesses(ld, opts)
	code := 0
	for _, r := range res {
		nu, ns := 0, 0
		for _, o := range r.Obls {
			if o.Status == "unsat" {
				nu++
			} else if o.Status == "sat" {
				ns++
			}
		}
		fmt.Printf("%-40s %-12s obls=%d unsat=%d sat=%d exec=%dms solve=%dms terms=%d %s\n", r.Name, r.Status, len(r.Obls), nu, ns, r.ExecMs, r.SolveMs, r.Terms, firstLine(r.Detail))
		if r.Status != "ok" {
			code = 1
		}
	}
	if *out != "" {
		data, _ := json.MarshalIndent(res, "", " ")
		os.WriteFile(*out, data, 0o644)
	}
	return code
}

func firstLine(s string) string {
	if i := strings.IndexByte(s, '\n'); i >= 0 {
		if len(s) > 2000 {
			return s[:2000]
		}
		return s
	}
	return s
}
