package main

import (
	"go/types"
)

// String primitives that are implemented by Go-level stubs in package vx.

func (ex *Exec) callStub(fr *Frame, name string, args ...Value) Value {
	st := ex.vxFunc(name)
	if st == nil {
		panic(unsupported("missing stub " + name))
	}
	val, heap := ex.callFunction(st, args, nil, fr.heap, fr.pc, fr.gid)
	fr.heap = heap
	return val
}

// decodeRune is used by range-over-string; it must not touch fr (called from next()).
func (ex *Exec) decodeRune(pc *Term, s *VStr, pos *Term) (*Term, *Term) {
	st := ex.vxFunc("Stub_decodeRune")
	if st == nil {
		panic(unsupported("missing stub Stub_decodeRune"))
	}
	// guard against out-of-range reads inside the stub when pos >= len: evaluate under pos<len only.
	val, _ := ex.callFunction(st, []Value{s, &VBV{pos}}, nil, Heap{}, ex.ts.And(pc, ex.ts.Ult(pos, s.Len)), 0)
	if val == nil {
		return ex.ts.BV(0, 32), ex.ts.BV(0, 64)
	}
	t := val.(*VTuple)
	return t.E[0].(*VBV).T, t.E[1].(*VBV).T
}

func (ex *Exec) runeToStr(r *Term) Value {
	st := ex.vxFunc("Stub_runeToString")
	val, _ := ex.callFunction(st, []Value{&VBV{r}}, nil, Heap{}, ex.ts.True, 0)
	return val
}

func (fr *Frame) runesOfStr(s *VStr, elem types.Type) Value {
	return fr.ex.callStub(fr, "Stub_runesOfString", s)
}

func (fr *Frame) strOfRunes(s *VSlice) Value {
	return fr.ex.callStub(fr, "Stub_stringOfRunes", s)
}
