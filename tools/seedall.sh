#!/bin/bash
# usage: seedall.sh [seed ...]   runs every seed of /verif/seeded against the check of its property (the property
# is the part of the seed name before the dash) and prints one line per seed: caught / MISSED / inconclusive.
cd /verif
SEEDS=${@:-$(ls seeded)}
for s in $SEEDS; do
  p=${s%%-*}
  out=$(timeout 40m bash tools/seedrun.sh $s $p 2>&1)
  rc=$(echo "$out" | grep -o "exit=[0-9]*" | head -1)
  if echo "$out" | grep -q "^VIOLATION"; then echo "$s caught ($rc)"; elif [ "$rc" = "exit=0" ]; then echo "$s MISSED"; else echo "$s inconclusive ($rc) $(echo "$out" | grep INCONCL | head -1 | cut -c1-120)"; fi
done
