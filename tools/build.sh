#!/bin/bash
# Builds the checker from /verif/engine, offline.
set -e
export PATH=/opt/veriftools/go1.26.8/bin:$PATH GOTOOLCHAIN=local GOPROXY=off GOSUMDB=off GOFLAGS=-mod=mod
cd "$(dirname "$0")/../engine"
mkdir -p ../bin
go build -o ../bin/vcheck .
echo built ../bin/vcheck
