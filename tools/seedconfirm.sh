#!/bin/bash
# usage: seedconfirm.sh <src seed_out dir> <seed name>   e.g. /tmp/wt/C02/seed_out C02-a
# Confirms a seeded change in a fresh scratch worktree: builds, baseline tests pass, demo fails with the patch
# and passes without; then stores it under /verif/seeded/<name>/.
set -u
export PATH=/opt/veriftools/go1.26.8/bin:$PATH GOTOOLCHAIN=local GOPROXY=off GOSUMDB=off
SRC=$1; NAME=$2
W=/tmp/sw/$NAME
rm -rf $W; mkdir -p /tmp/sw
git -C /repo worktree add -q --detach $W HEAD || exit 2
trap 'git -C /repo worktree remove --force $W >/dev/null 2>&1' EXIT
cp -r $SRC $W/seed_out
cd $W
git apply seed_out/patch.diff || { echo "PATCH-DOES-NOT-APPLY"; exit 2; }
go build ./derive/... ./plugin/... . || { echo "BUILD-FAILS"; exit 2; }
go vet ./derive/... ./plugin/... >/dev/null 2>&1 || echo "note: go vet complains"
T=$(go test -vet=off -count=1 ./example/... ./test/normal/... ./test/gopaths/gopath1/... 2>&1 | grep -v "^ok\|no test files" | head -5)
if [ -n "$T" ]; then echo "BASELINE-TESTS-FAIL: $T"; exit 2; fi
sh seed_out/demo/run.sh > /tmp/sw/$NAME.with.log 2>&1; WITH=$?
git apply -R seed_out/patch.diff
sh seed_out/demo/run.sh > /tmp/sw/$NAME.without.log 2>&1; WITHOUT=$?
echo "demo exit with patch=$WITH without patch=$WITHOUT"
if [ $WITH -eq 0 ] || [ $WITHOUT -ne 0 ]; then echo "DEMO-NOT-DISCRIMINATING"; tail -5 /tmp/sw/$NAME.with.log /tmp/sw/$NAME.without.log; exit 2; fi
D=/verif/seeded/$NAME
rm -rf $D; mkdir -p $D
cp seed_out/patch.diff $D/patch.diff
cp -r seed_out/demo $D/demo
python3 - "$SRC/meta.json" "$D/meta.json" "$WITH" "$WITHOUT" <<'PY'
import json,sys
m=json.load(open(sys.argv[1]))
m['confirmed']={'worktree':'fresh git worktree of /repo HEAD','build':'go build ./derive/... ./plugin/... . ok','baseline_tests':'go test -vet=off -count=1 ./example/... ./test/normal/... ./test/gopaths/gopath1/... all ok','demo_exit_with_patch':int(sys.argv[3]),'demo_exit_without_patch':int(sys.argv[4])}
json.dump(m,open(sys.argv[2],'w'),indent=1)
PY
echo "CONFIRMED -> $D"
