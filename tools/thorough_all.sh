#!/bin/bash
# runs every thorough command sequentially with a per-property cap; prints a summary line each
bash tools/build.sh >/dev/null 2>&1
for p in C20 C09 C10 C12 C16 C18 C15 C13 C17 C07 C01 C11 C08 C19 C03 C04 C02 C05 C14; do
  s=$(date +%s); timeout 55m ./bin/vcheck run -tier thorough -j 10 $p > thorough_$p.log 2>&1; rc=$?; e=$(date +%s)
  echo "$p exit=$rc $((e-s))s known=$(grep -c '^KNOWN' thorough_$p.log) viol=$(grep -c '^VIOLATION' thorough_$p.log) inconcl=$(grep -c '^INCONCLUSIVE' thorough_$p.log)"
  grep -E "^INCONCLUSIVE|^VIOLATION" thorough_$p.log | cut -c1-220 | head -8
done
