#!/bin/bash
# usage: runall.sh [tier] [props...]  runs registered quick checks sequentially, prints summary
TIER=${1:-quick}; shift
PROPS=${@:-C01 C02 C03 C04 C05 C07 C08 C09 C10 C11 C12 C13 C14 C15 C16 C17 C18 C19 C20}
for p in $PROPS; do
  s=$(date +%s); ./bin/vcheck run -tier $TIER $p > /tmp/runall_$p.log 2>&1; rc=$?; e=$(date +%s)
  echo "$p exit=$rc $((e-s))s $(grep -c '^KNOWN' /tmp/runall_$p.log) known $(grep -c '^VIOLATION' /tmp/runall_$p.log) viol $(grep -c '^INCONCLUSIVE' /tmp/runall_$p.log) inconcl"
done
