#!/usr/bin/env python3
# Generates /verif/MANIFEST.json from the table below.
import json
ENV = "PATH=/opt/veriftools/go1.26.8/bin:$PATH GOTOOLCHAIN=local GOPROXY=off GOSUMDB=off"
props = [json.loads(l) for l in open('/verif/properties.jsonl')]
modeA = "bounded symbolic execution of the go/ssa of freshly generated code (own SSA->SMT-LIB2 encoder), obligations decided by z3 5.1 / cvc5 / z3 4.8 portfolio, counterexamples replayed natively"
claimed = {
 "C02": ("model_checking", "For every type shape of the corpus (128 quick) the freshly generated deriveEqual is symbolically executed from SSA together with an independently generated structural-equality reference; `deriveEqual(x,y) == ref(x,y)`, reflexivity on the same object, symmetry, transitivity (recursive/user-Equal types), curried==binary and top-level-vs-field consistency are solver verdicts over ALL values within the bounds (slices<=2 +1 spare, maps<=2, strings<=2 bytes, recursion depth 2, full-width integers, IEEE floats without NaN), including every panic obligation (nil deref, index).", "§5 C02", modeA),
 "C03": ("model_checking", "Per type shape: result range, antisymmetry, Compare==0 <=> deriveEqual, transitivity over three symbolic values (non-map types in quick), the single-difference direction clause via an independently generated difference classifier, and curried==binary; maps go through the real generated deriveSort/deriveKeys with the map iteration order as a solver variable.", "§5 C03", modeA),
 "C04": ("model_checking", "Per type shape: hash(x)==hash(rebuild(x)) (fresh addresses, capacities, independent map iteration orders), repeatability + argument unchanged, Equal=>equal hash on two independent values, and premise coverage Equal=>structural; multiplication by constants is first abstracted as an uninterpreted function (sound for proving equalities), any abstract counterexample is re-decided with real bit-vector multiplication and replayed natively.", "§5 C04", modeA + "; UF abstraction of 31*h with concrete re-check"),
 "C05": ("model_checking", "Per type shape: after deriveDeepCopy into an arbitrary tree-shaped prior destination (pointer form; slice and map forms) and for deriveClone: copy structurally equals source, source unchanged, and after overwriting every reachable location of either side (incl. spare capacity, inserting into every map) the other side is unchanged - all for every source/destination value within the bounds.", "§5 C05", modeA),
 "C13": ("model_checking", "Per element type: Sort output sorted under derived Compare / natural < and an identity-based permutation of the input; Keys returns every key exactly once for every map iteration order; Min/Max (list and two-value forms) return an element that nothing precedes/follows, default for empty.", "§5 C13", modeA),
 "C14": ("model_checking", "Per element type: Contains, Unique (pairwise non-Equal, covers, only inputs, first occurrences in order), Set, Union/Intersect (lists and sets, membership formulation), Filter/TakeWhile/All/Any with the predicate as a logged arbitrary function (call order and early stop).", "§5 C14", modeA + "; derived hash arithmetic abstracted as UF inside Unique with concrete re-check"),
 "C15": ("model_checking", "Per signature of the corpus (2..5 params, blank/odd names, 1..3 results): Curry, Uncurry(Curry(f)), Flip, Apply invoke an instrumented f exactly once with every argument in its proper position and return its results; Tuple yields its arguments - for all argument/result values.", "§5 C15", modeA),
 "C16": ("model_checking", "Compose chains (2..3 stages, 0..3 intermediate results, which stage fails is symbolic), error forms of Fmap and Join, Traverse (failure index symbolic), ToError: call log, error identity, zero results and pass-through asserted for every failure pattern and value.", "§5 C16", modeA),
 "C17": ("model_checking", "Fmap over slices (3 element/result type pairs) and over strings of <=4 symbolic bytes (every byte value, hence every valid and invalid UTF-8 sequence) against []rune(s); Join of slices and strings is concatenation, nil for nil, inputs unchanged.", "§5 C17", modeA),
 "C18": ("model_checking", "Per signature (0..3 params, 0..3 results, comparable and non-comparable): for every sequence of 3 calls with arbitrary arguments the memoised function returns what a deterministic table-driven f returns and f is never invoked twice for structurally equal argument tuples (hash collisions are arbitrary under the UF abstraction).", "§5 C18", modeA + "; derived hash arithmetic abstracted as UF with concrete re-check"),
}
notes = {
 "C02": "Trusted: go/ssa, the encoder (validated by native replay of every counterexample and by seeded mutants), the solvers (two of z3 5.1/cvc5/z3 4.8 agree on the thorough tier). Outside: NaN, cyclic values, reflect/unsafe path for imported unexported fields, values beyond the bounds.",
}
checks = []
for p in props:
    i = p['id']
    if i in claimed:
        cat, text, ref, tech = claimed[i]
        checks.append({
            "property_id": i,
            "quick_cmd": "%s ./bin/vcheck run -tier quick %s" % (ENV, i),
            "thorough_cmd": "%s ./bin/vcheck run -tier thorough %s" % (ENV, i),
            "evidence_file": "/verif/evidence/%s.json" % i,
            "replay_cmd_template": "%s ./bin/vcheck replay {path}" % ENV,
            "engine": "gosymx",
            "level_claimed": {"category": cat, "text": text, "design_ref": ref},
            "level_note": notes.get(i, notes["C02"]),
            "technique": tech,
        })
na_reason = {
 "C06": "GoString's output is Go source built by fmt %#v and the oracle is the Go compiler evaluating that text; neither formatting of symbolic values nor parse+type-check+evaluate of a symbolic string has a bounded SMT encoding within reach (DESIGN §6)",
}
na = []
for p in props:
    if p['id'] not in claimed:
        na.append({"property_id": p['id'], "reason": na_reason.get(p['id'], "check not built yet (work in progress this session)")})
m = {"version": 1,
 "setup_cmd": "bash tools/build.sh && ./bin/vcheck fplemma",
 "hooks": {"guard": "verif", "enable": "none needed: harnesses and the vx library are injected into a scratch copy of /repo's working tree (same module path); /repo carries no hook commits",
           "baseline_off_cmd": "cd /repo && %s go test -json -vet=off -count=1 ./... ; true" % ENV, "source_commits": [], "add_only": True},
 "engines": [{"name": "gosymx", "path": "/verif/engine", "serves_properties": sorted(claimed.keys()), "kind_free_text": "SSA->SMT-LIB2 bounded symbolic executor for Go with native replay"}],
 "checks": checks,
 "not_applicable": na,
 "notes": "exit 0 = all obligations of the registered bounds discharged; exit 1 + VIOLATION line = reproduced counterexample; exit 3 = inconclusive / engine inconsistency (never reported as success). Known findings: /verif/known_findings.json."}
json.dump(m, open('/verif/MANIFEST.json', 'w'), indent=1)
print("checks:", len(checks), "n/a:", len(na))
