#!/bin/bash
# usage: seedrun.sh <seed name> <property> [extra vcheck args]: applies the seeded patch to /repo, runs the check, restores /repo.
NAME=$1; PROP=$2; shift 2
cp /verif/evidence/$PROP.json /tmp/evidence_$PROP.bak 2>/dev/null
cd /repo && git apply /verif/seeded/$NAME/patch.diff || exit 2
cd /verif && ./bin/vcheck run "$@" $PROP > /tmp/seedrun_${NAME}_${PROP}.log 2>&1; RC=$?
cd /repo && git checkout -- . 
cp /verif/evidence/$PROP.json /tmp/seedrun_${NAME}_${PROP}.evidence.json 2>/dev/null; cp /tmp/evidence_$PROP.bak /verif/evidence/$PROP.json 2>/dev/null
echo "seed=$NAME property=$PROP exit=$RC"; grep -E "^VIOLATION|^KNOWN|^INCONCLUSIVE|^OK|detail:" /tmp/seedrun_${NAME}_${PROP}.log | cut -c1-260 | head -8
