#!/bin/bash
# usage: seedrun.sh <seed name> <property> [extra vcheck args]: applies the seeded patch to /repo, runs the check, restores /repo.
NAME=$1; PROP=$2; shift 2
cd /repo && git apply /verif/seeded/$NAME/patch.diff || exit 2
cd /verif && ./bin/vcheck run "$@" $PROP > /tmp/seedrun_${NAME}_${PROP}.log 2>&1; RC=$?
cd /repo && git checkout -- . 
echo "seed=$NAME property=$PROP exit=$RC"; grep -E "^VIOLATION|^KNOWN|^INCONCLUSIVE|^OK|detail:" /tmp/seedrun_${NAME}_${PROP}.log | cut -c1-260 | head -8
