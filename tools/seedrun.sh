#!/bin/bash
# usage: seedrun.sh <seed name> <property> [extra vcheck args]
# Applies the seeded patch to a scratch worktree of /repo (never to /repo itself, so that checks running
# concurrently against /repo are not disturbed), runs the check against it and removes the worktree.
# Evidence and replays of the experiment go to /tmp, not to /verif/evidence.
NAME=$1; PROP=$2; shift 2
WT=/tmp/seedwt_${NAME}_${PROP}_$$
git -C /repo worktree add -q --detach $WT HEAD || exit 2
( cd $WT && git apply /verif/seeded/$NAME/patch.diff ) || { git -C /repo worktree remove --force $WT; exit 2; }
mkdir -p /tmp/seedev_${NAME}_${PROP}
cd /verif && VERIF_REPO=$WT VERIF_EVIDENCE_DIR=/tmp/seedev_${NAME}_${PROP} ./bin/vcheck run "$@" $PROP > /tmp/seedrun_${NAME}_${PROP}.log 2>&1; RC=$?
git -C /repo worktree remove --force $WT; git -C /repo worktree prune
echo "seed=$NAME property=$PROP exit=$RC"; grep -E "^VIOLATION|^KNOWN|^INCONCLUSIVE|^OK|detail:" /tmp/seedrun_${NAME}_${PROP}.log | cut -c1-260 | head -8
