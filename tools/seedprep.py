#!/usr/bin/env python3
# usage: seedprep.py <property id> <suffix>   e.g. C02 c  -> worktree /tmp/wt/C02c and prompt /tmp/wt/prompt_C02c.txt
# The prompt contains only the property text and one-line descriptions of earlier seeded changes (for diversity).
import json, sys, subprocess, os, glob
prop, suf = sys.argv[1], sys.argv[2]
wid = prop + suf
p = [json.loads(l) for l in open('/verif/properties.jsonl') if l.strip()]
p = [x for x in p if x['id'] == prop][0]
earlier = []
for m in sorted(glob.glob('/verif/seeded/%s-*/meta.json' % prop)):
    earlier.append(json.load(open(m)).get('what', ''))
extra = ''
if earlier:
    extra = 'Earlier seeded changes for this property were:\n' + '\n'.join(' - ' + e for e in earlier) + '\nProduce a DIFFERENT kind of defect at a different site (another function / another clause of the property / another plugin or type shape).'
os.makedirs('/tmp/wt', exist_ok=True)
subprocess.run(['git', '-C', '/repo', 'worktree', 'add', '-q', '--detach', '/tmp/wt/' + wid, 'HEAD'], check=True)
t = open('/verif/tools/seed_agent_prompt.tmpl').read()
t = t.replace('@ID@', wid).replace('@PROP@', json.dumps(p, indent=1)).replace('@EXTRA@', extra)
open('/tmp/wt/prompt_%s.txt' % wid, 'w').write(t)
print('/tmp/wt/prompt_%s.txt' % wid)
