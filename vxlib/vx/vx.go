// Package vx is the harness vocabulary of the goderive verification machinery.
//
// Under the symbolic executor (gosymx) calls into this package are intercepted:
// Nondet yields an arbitrary value of the type within the configured bounds, Assume
// constrains, Assert becomes a proof obligation. Compiled natively the same functions
// replay one solver model: Nondet decodes the model's value, Assert records a failure.
package vx

import (
	"encoding/json"
	"fmt"
	"math"
	"os"
	"reflect"
	"strconv"
	"testing"
	"unsafe"
)

type jv struct {
	K   string  `json:"k"`
	V   string  `json:"v,omitempty"`
	Nil bool    `json:"nil,omitempty"`
	Len int     `json:"len,omitempty"`
	Cap int     `json:"cap,omitempty"`
	E   []*jv   `json:"e,omitempty"`
	KV  [][]*jv `json:"kv,omitempty"`
	B   []int   `json:"b,omitempty"`
	Re  string  `json:"re,omitempty"`
	Im  string  `json:"im,omitempty"`
}

type model struct {
	Harness string           `json:"harness"`
	Nondets map[string][]*jv `json:"nondets"`
}

var observations []string

// Observe records a scalar result. Symbolically the value is evaluated under a solver model; natively the
// actual value is printed; the two must agree (translator validation).
func Observe(name string, v any) {
	switch x := v.(type) {
	case string:
		observations = append(observations, fmt.Sprintf("%s=%x", name, x))
	default:
		observations = append(observations, fmt.Sprintf("%s=%v", name, x))
	}
}

var (
	cur      *model
	counter  map[string]int
	failures []string
)

type assumeFailed struct{}

// Nondet returns an arbitrary value of type T (symbolically), or the replayed model value (natively).
func Nondet[T any](name string) T {
	var z T
	if cur == nil {
		panic("vx.Nondet called outside replay")
	}
	k := counter[name]
	counter[name]++
	vals := cur.Nondets[name]
	if k >= len(vals) {
		panic(fmt.Sprintf("vx: model has no value #%d for nondet %q", k, name))
	}
	decode(reflect.ValueOf(&z).Elem(), vals[k])
	return z
}

// NondetOpt is Nondet with bound overrides, e.g. "len=3,cap=0,str=4,depth=1,map=2".
func NondetOpt[T any](name string, opt string) T { return Nondet[T](name) }

func Assume(b bool) {
	if !b {
		panic(assumeFailed{})
	}
}

func Assert(b bool, label string) {
	if !b {
		failures = append(failures, label)
	}
}

func Cover(label string) {}

// Exit marks the end of the process (used by the symbolic stubs of log.Fatal / os.Exit).
func Exit() { panic(assumeFailed{}) }

// LenAny / SwapAny are used only by the symbolic stubs of package sort.
func LenAny(x any) int { return reflect.ValueOf(x).Len() }
func SwapAny(x any, i, j int) {
	reflect.Swapper(x)(i, j)
}

// SameMap reports whether two maps are the same map object.
func SameMap(a, b any) bool {
	return reflect.ValueOf(a).Pointer() == reflect.ValueOf(b).Pointer() && reflect.ValueOf(a).Pointer() != 0
}

// ByteStr is string([]byte{b}).
func ByteStr(b byte) string { return string([]byte{b}) }

func bits(s string) uint64 {
	u, err := strconv.ParseUint(s, 10, 64)
	if err != nil {
		panic(err)
	}
	return u
}

func settable(v reflect.Value) reflect.Value {
	if v.CanSet() {
		return v
	}
	return reflect.NewAt(v.Type(), unsafe.Pointer(v.UnsafeAddr())).Elem()
}

func decode(v reflect.Value, j *jv) {
	v = settable(v)
	switch v.Kind() {
	case reflect.Bool:
		v.SetBool(j.V == "1")
	case reflect.Int, reflect.Int8, reflect.Int16, reflect.Int32, reflect.Int64:
		v.SetInt(int64(bits(j.V)))
	case reflect.Uint, reflect.Uint8, reflect.Uint16, reflect.Uint32, reflect.Uint64, reflect.Uintptr:
		v.SetUint(bits(j.V))
	case reflect.Float32:
		v.SetFloat(float64(math.Float32frombits(uint32(bits(j.V)))))
	case reflect.Float64:
		v.SetFloat(math.Float64frombits(bits(j.V)))
	case reflect.Complex64:
		v.SetComplex(complex(float64(math.Float32frombits(uint32(bits(j.Re)))), float64(math.Float32frombits(uint32(bits(j.Im))))))
	case reflect.Complex128:
		v.SetComplex(complex(math.Float64frombits(bits(j.Re)), math.Float64frombits(bits(j.Im))))
	case reflect.String:
		b := make([]byte, len(j.B))
		for i, x := range j.B {
			b[i] = byte(x)
		}
		v.SetString(string(b))
	case reflect.Pointer:
		if j.Nil {
			v.Set(reflect.Zero(v.Type()))
			return
		}
		p := reflect.New(v.Type().Elem())
		decode(p.Elem(), j.E[0])
		v.Set(p)
	case reflect.Slice:
		if j.Nil {
			v.Set(reflect.Zero(v.Type()))
			return
		}
		s := reflect.MakeSlice(v.Type(), j.Cap, j.Cap)
		for i := 0; i < j.Cap && i < len(j.E); i++ {
			decode(s.Index(i), j.E[i])
		}
		v.Set(s.Slice(0, j.Len))
	case reflect.Map:
		if j.Nil {
			v.Set(reflect.Zero(v.Type()))
			return
		}
		m := reflect.MakeMap(v.Type())
		for _, kv := range j.KV {
			k := reflect.New(v.Type().Key()).Elem()
			e := reflect.New(v.Type().Elem()).Elem()
			decode(k, kv[0])
			decode(e, kv[1])
			m.SetMapIndex(k, e)
		}
		v.Set(m)
	case reflect.Struct:
		for i := 0; i < v.NumField(); i++ {
			decode(v.Field(i), j.E[i])
		}
	case reflect.Array:
		for i := 0; i < v.Len(); i++ {
			decode(v.Index(i), j.E[i])
		}
	case reflect.Interface, reflect.Func, reflect.Chan:
		if !j.Nil {
			panic("vx: cannot replay non-nil " + v.Kind().String())
		}
		v.Set(reflect.Zero(v.Type()))
	default:
		panic("vx: cannot decode kind " + v.Kind().String())
	}
}

// Replay runs the harness named by $VX_HARNESS against the model in $VX_MODEL and reports the outcome
// on stdout as one line "REPLAY: <outcome>".
func Replay(t *testing.T, harnesses map[string]func()) {
	if mp := os.Getenv("VX_MODELS"); mp != "" {
		data, err := os.ReadFile(mp)
		if err != nil {
			t.Fatal(err)
		}
		var ms []*model
		if err := json.Unmarshal(data, &ms); err != nil {
			t.Fatal(err)
		}
		for i, m := range ms {
			h, ok := harnesses[m.Harness]
			if !ok {
				fmt.Printf("REPLAY[%d]: unknown-harness %s\n", i, m.Harness)
				continue
			}
			cur = m
			counter = map[string]int{}
			failures = nil
			observations = nil
			func() {
				defer func() {
					if r := recover(); r != nil {
						if _, ok := r.(assumeFailed); ok {
							fmt.Printf("REPLAY[%d]: assume-failed\n", i)
							return
						}
						fmt.Printf("REPLAY[%d]: panic %v\n", i, r)
					}
				}()
				h()
				fmt.Printf("REPLAY[%d]: done\n", i)
			}()
			for _, o := range observations {
				fmt.Printf("OBSERVE[%d]: %s\n", i, o)
			}
		}
		return
	}
	path := os.Getenv("VX_MODEL")
	if path == "" {
		t.Skip("no VX_MODEL")
	}
	data, err := os.ReadFile(path)
	if err != nil {
		t.Fatal(err)
	}
	m := &model{}
	if err := json.Unmarshal(data, m); err != nil {
		t.Fatal(err)
	}
	h, ok := harnesses[m.Harness]
	if !ok {
		fmt.Printf("REPLAY: unknown-harness %s\n", m.Harness)
		return
	}
	cur = m
	counter = map[string]int{}
	failures = nil
	func() {
		defer func() {
			if r := recover(); r != nil {
				if _, ok := r.(assumeFailed); ok {
					fmt.Printf("REPLAY: assume-failed\n")
					return
				}
				fmt.Printf("REPLAY: panic %v\n", r)
			}
		}()
		h()
		if len(failures) > 0 {
			fmt.Printf("REPLAY: assert-failed %q\n", failures)
		} else {
			fmt.Printf("REPLAY: passed\n")
		}
	}()
}
