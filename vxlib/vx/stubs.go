package vx

// Symbolic stand-ins for standard-library functions called by generated code. The symbolic
// executor redirects a call of pkg.Fn to Stub_pkg_Fn. Each is the algorithm the library uses
// at the sizes within the verification bounds (sort: insertion sort, which is what
// pdqsort/sort.Slice run for n <= 12), written over plain Go so that it is itself executed
// symbolically. They are never used natively.

type StubError struct{ msg string }

func (e *StubError) Error() string { return e.msg }

func Stub_errors_New(s string) error { return &StubError{s} }

func Stub_fmt_Errorf(format string, a ...any) error { return &StubError{format} }

func Stub_fmt_Sprintf(format string, a ...any) string { return format }

func Stub_log_Printf(format string, a ...any) {}
func Stub_log_SetFlags(flag int)                  {}
func Stub_log_Fatal(v ...any)                     { Exit() }
func Stub_log_Fatalf(format string, v ...any)     { Exit() }
func Stub_flag_Parse()                            {}
func Stub_flag_Args() []string                    { return nil }
func Stub_os_Exit(code int)                       { Exit() }

func Stub_sort_Strings(x []string) {
	for i := 1; i < len(x); i++ {
		for j := i; j > 0 && x[j] < x[j-1]; j-- {
			x[j], x[j-1] = x[j-1], x[j]
		}
	}
}

func Stub_sort_Ints(x []int) {
	for i := 1; i < len(x); i++ {
		for j := i; j > 0 && x[j] < x[j-1]; j-- {
			x[j], x[j-1] = x[j-1], x[j]
		}
	}
}

func Stub_sort_Float64s(x []float64) {
	// sort.Float64s orders NaN first; NaN is excluded by assumption in every harness.
	for i := 1; i < len(x); i++ {
		for j := i; j > 0 && x[j] < x[j-1]; j-- {
			x[j], x[j-1] = x[j-1], x[j]
		}
	}
}

func Stub_sort_Slice(x any, less func(i, j int) bool) {
	n := LenAny(x)
	for i := 1; i < n; i++ {
		for j := i; j > 0 && less(j, j-1); j-- {
			SwapAny(x, j, j-1)
		}
	}
}

func Stub_sort_SliceStable(x any, less func(i, j int) bool) { Stub_sort_Slice(x, less) }

func Stub_bytes_Equal(a, b []byte) bool {
	if len(a) != len(b) {
		return false
	}
	for i := 0; i < len(a); i++ {
		if a[i] != b[i] {
			return false
		}
	}
	return true
}

func Stub_bytes_Compare(a, b []byte) int {
	n := len(a)
	if len(b) < n {
		n = len(b)
	}
	for i := 0; i < n; i++ {
		if a[i] != b[i] {
			if a[i] < b[i] {
				return -1
			}
			return 1
		}
	}
	if len(a) < len(b) {
		return -1
	}
	if len(a) > len(b) {
		return 1
	}
	return 0
}

func Stub_strings_Compare(a, b string) int {
	if a == b {
		return 0
	}
	if a < b {
		return -1
	}
	return 1
}

func Stub_strings_Join(elems []string, sep string) string {
	s := ""
	for i := 0; i < len(elems); i++ {
		if i > 0 {
			s += sep
		}
		s += elems[i]
	}
	return s
}

func Stub_strings_HasPrefix(s, prefix string) bool {
	return len(s) >= len(prefix) && s[:len(prefix)] == prefix
}

const runeError = '\uFFFD'

// Stub_decodeRune is utf8.DecodeRuneInString(s[pos:]) for pos < len(s).
func Stub_decodeRune(s string, pos int) (rune, int) {
	b0 := s[pos]
	if b0 < 0x80 {
		return rune(b0), 1
	}
	if b0 < 0xC2 || b0 > 0xF4 {
		return runeError, 1
	}
	if pos+1 >= len(s) {
		return runeError, 1
	}
	b1 := s[pos+1]
	lo, hi := byte(0x80), byte(0xBF)
	switch b0 {
	case 0xE0:
		lo = 0xA0
	case 0xED:
		hi = 0x9F
	case 0xF0:
		lo = 0x90
	case 0xF4:
		hi = 0x8F
	}
	if b1 < lo || b1 > hi {
		return runeError, 1
	}
	if b0 < 0xE0 {
		return rune(b0&0x1F)<<6 | rune(b1&0x3F), 2
	}
	if pos+2 >= len(s) {
		return runeError, 1
	}
	b2 := s[pos+2]
	if b2 < 0x80 || b2 > 0xBF {
		return runeError, 1
	}
	if b0 < 0xF0 {
		return rune(b0&0x0F)<<12 | rune(b1&0x3F)<<6 | rune(b2&0x3F), 3
	}
	if pos+3 >= len(s) {
		return runeError, 1
	}
	b3 := s[pos+3]
	if b3 < 0x80 || b3 > 0xBF {
		return runeError, 1
	}
	return rune(b0&0x07)<<18 | rune(b1&0x3F)<<12 | rune(b2&0x3F)<<6 | rune(b3&0x3F), 4
}

// Stub_runeToString is string(rune(r)) for an integer r (as int64).
func Stub_runeToString(r int64) string {
	if r < 0 || r > 0x10FFFF || (r >= 0xD800 && r <= 0xDFFF) {
		r = runeError
	}
	switch {
	case r < 0x80:
		return ByteStr(byte(r))
	case r < 0x800:
		return ByteStr(0xC0|byte(r>>6)) + ByteStr(0x80|byte(r)&0x3F)
	case r < 0x10000:
		return ByteStr(0xE0|byte(r>>12)) + ByteStr(0x80|byte(r>>6)&0x3F) + ByteStr(0x80|byte(r)&0x3F)
	}
	return ByteStr(0xF0|byte(r>>18)) + ByteStr(0x80|byte(r>>12)&0x3F) + ByteStr(0x80|byte(r>>6)&0x3F) + ByteStr(0x80|byte(r)&0x3F)
}

func Stub_runesOfString(s string) []rune {
	n := 0
	for pos := 0; pos < len(s); {
		_, sz := Stub_decodeRune(s, pos)
		pos += sz
		n++
	}
	out := make([]rune, n)
	i := 0
	for pos := 0; pos < len(s); {
		r, sz := Stub_decodeRune(s, pos)
		out[i] = r
		pos += sz
		i++
	}
	return out
}

func Stub_stringOfRunes(rs []rune) string {
	s := ""
	for i := 0; i < len(rs); i++ {
		s += Stub_runeToString(int64(rs[i]))
	}
	return s
}
