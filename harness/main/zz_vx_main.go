package main

// C12: the real main() is executed symbolically (flag parsing stubbed) for a set of -prefix / -pluginprefix
// configurations chosen by the solver; derive.(*plugins).Load is replaced by a harness stub (in package
// derive) that asserts, on the plugin list main actually hands over, that dispatch order is longest
// prefix first and that every plugin carries its customised prefix.

import (
	"github.com/awalterschulze/goderive/derive"
	"github.com/awalterschulze/goderive/vxlib/vx"
)

// expected prefixes of a few plugins per configuration (independent of main's own computation)
func vxExpected(cfg int, global string) map[string]string {
	m := map[string]string{"hash": global + "Hash", "sort": global + "Sort", "equal": global + "Equal", "compare": global + "Compare"}
	switch cfg {
	case 1:
		m["compare"], m["equal"] = "cmp", "cmpEq"
	case 2:
		m["equal"], m["compare"] = "eq", "eqOrd"
	case 3:
		m["sort"] = "deriveS"
	case 4:
		m["hash"] = "deriveHash"
	case 6:
		m["equal"], m["compare"] = "deriveEqual", "deriveCmp"
	}
	return m
}

func vxPluginPrefixConfigs() []string {
	return []string{
		"",
		"compare=cmp,equal=cmpEq",
		"equal=eq,compare=eqOrd",
		"sort=deriveS,set=deriveSet2,keys=deriveSet",
		"hash=deriveHash,mem=deriveHashMem",
		"min=m,max=mm,mem=mmm",
		"equal=deriveEqual,compare=deriveCmp",
	}
}

// One harness per configuration: with constant flag values the whole of main() up to the loader runs on
// concrete data inside the symbolic executor (33 plugins sorted by the real less closure), and the assertions
// in the Load stub are decided on the plugin list main actually builds.
func vxRunMain(cfg int, global string) {
	pp := vxPluginPrefixConfigs()[cfg]
	p := global
	f := false
	prefix, pluginprefix, autoname, dedup = &p, &pp, &f, &f
	derive.VXExpectPrefix = vxExpected(cfg, global)
	main()
	vx.Cover("main returned")
}

func VX_C12_main_cfg0()    { vxRunMain(0, "derive") }
func VX_C12_main_cfg0gen() { vxRunMain(0, "gen") }
func VX_C12_main_cfg1()    { vxRunMain(1, "derive") }
func VX_C12_main_cfg2()    { vxRunMain(2, "derive") }
func VX_C12_main_cfg3()    { vxRunMain(3, "derive") }
func VX_C12_main_cfg4()    { vxRunMain(4, "gen") }
func VX_C12_main_cfg5()    { vxRunMain(5, "derive") }
func VX_C12_main_cfg6gen() { vxRunMain(6, "gen") }

// the empty global prefix: the talk examples call Equal(a, b), Sort(Keys(m)) and run goderive -prefix=""
func VX_C12_main_cfg0empty() { vxRunMain(0, "") }
func VX_C12_main_cfg2empty() { vxRunMain(2, "") }
