package main

// C12: the real main() is executed symbolically (flag parsing stubbed) for a set of -prefix / -pluginprefix
// configurations chosen by the solver; derive.(*plugins).Load is replaced by a harness stub (in package
// derive) that asserts, on the plugin list main actually hands over, that dispatch order is longest
// prefix first and that every plugin carries its customised prefix.

import "github.com/awalterschulze/goderive/vxlib/vx"

func vxPluginPrefixConfigs() []string {
	return []string{
		"",
		"compare=cmp,equal=cmpEq",
		"equal=eq,compare=eqOrd",
		"sort=deriveS,set=deriveSet2,keys=deriveSet",
		"hash=deriveHash,mem=deriveHashMem",
		"min=m,max=mm,mem=mmm",
	}
}

// One harness per configuration: with constant flag values the whole of main() up to the loader runs on
// concrete data inside the symbolic executor (33 plugins sorted by the real less closure), and the assertions
// in the Load stub are decided on the plugin list main actually builds.
func vxRunMain(cfg int, global string) {
	pp := vxPluginPrefixConfigs()[cfg]
	p := global
	f := false
	prefix, pluginprefix, autoname, dedup = &p, &pp, &f, &f
	main()
	vx.Cover("main returned")
}

func VX_C12_main_cfg0()    { vxRunMain(0, "derive") }
func VX_C12_main_cfg0gen() { vxRunMain(0, "gen") }
func VX_C12_main_cfg1()    { vxRunMain(1, "derive") }
func VX_C12_main_cfg2()    { vxRunMain(2, "derive") }
func VX_C12_main_cfg3()    { vxRunMain(3, "derive") }
func VX_C12_main_cfg4()    { vxRunMain(4, "gen") }
func VX_C12_main_cfg5()    { vxRunMain(5, "derive") }
