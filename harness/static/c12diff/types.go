package c12diff

type Leaf struct {
	I int
	S string
}

type T struct {
	A int
	L []*Leaf
	M map[string]int
	P *Leaf
}

// default-prefix calls (generated in the first run, kept as zz_default.go)
func useDefault(a, b *T) (bool, int, uint64) {
	deriveDeepCopy(a, b)
	return deriveEqual(a, b), deriveCompare(a, b), deriveHash(a)
}
