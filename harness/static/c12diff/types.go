package c12diff

type Leaf struct {
	I int
	S string
}

type T struct {
	A int
	L []*Leaf
	M map[string]int
	P *Leaf
}

// default-prefix calls (generated in the first run, kept as zz_default.go)
func useDefault(a, b *T) (bool, int, uint64) {
	deriveDeepCopy(a, b)
	return deriveEqual(a, b), deriveCompare(a, b), deriveHash(a)
}

// a nested derive call: the argument type of the outer call is only known after a first generation pass
func sortedDefault(m map[string]int) []string { return deriveSort(deriveKeys(m)) }

func minDefault(m map[string]int) string { return deriveMin(deriveKeys(m), "") }
