package ext

// T: a second package with the same package name and type name.
type T struct {
	A string
	B map[string]int
}
