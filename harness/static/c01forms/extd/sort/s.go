// Package sort is a user package named like a standard-library package that the plugins import themselves.
package sort

type Item struct {
	A int
	B []string
}
