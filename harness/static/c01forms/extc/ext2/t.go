package ext2

// Head and Tail have unexported fields: goderive reaches them through reflect+unsafe.
type Head struct {
	count int64
	Name  string
}

type Tail struct {
	Name  string
	count int64
}

func NewHead(n string, c int64) *Head { return &Head{c, n} }
