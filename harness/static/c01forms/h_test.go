package c01forms

import "testing"

// derive call in a _test file (front-end only: the package must generate and compile with its tests)
func TestInTestFile(t *testing.T) {
	a := &Node{V: 1}
	if !deriveEqualNode(a, a) {
		t.Fatal("not equal to itself")
	}
}
