package c01forms

// Call-site forms (C01): the derive functions are reached through a function body, a package-level var,
// a closure, a nested derive call (whose argument type is only known after an earlier generation pass),
// the curried one-argument form, and over structs imported from two sibling packages with the same name.
// Each harness asserts a semantic fact THROUGH that form, so "resolves to exactly one generated function
// that accepts its arguments" is exercised by the solver, and the front-end stage type-checks the package.

import (
	exta "github.com/awalterschulze/goderive/vxfix/static/c01forms/exta/ext"
	extb "github.com/awalterschulze/goderive/vxfix/static/c01forms/extb/ext"
	"github.com/awalterschulze/goderive/vxfix/static/c01forms/extc/ext2"
	usort "github.com/awalterschulze/goderive/vxfix/static/c01forms/extd/sort"
	"github.com/awalterschulze/goderive/vxlib/vx"
)

type Both struct {
	P  *exta.T
	Q  extb.T
	N  int
	Ls []*Both
}

type Node struct {
	V    int
	Next *Node
}

// package-level var form
var eqNodeVar = func(a, b *Node) bool { return deriveEqualNode(a, b) }

func refEqNode(a, b *Node) bool {
	if a == nil || b == nil {
		return a == nil && b == nil
	}
	return a.V == b.V && refEqNode(a.Next, b.Next)
}

func VX_C01_form_var() {
	x := vx.Nondet[*Node]("x")
	y := vx.Nondet[*Node]("y")
	vx.Assert(eqNodeVar(x, y) == refEqNode(x, y), "derive call in a package-level var")
}

func VX_C01_form_closure() {
	x := vx.Nondet[*Node]("x")
	y := vx.Nondet[*Node]("y")
	f := func() int { return deriveCompareNode(x, y) }
	vx.Assert((f() == 0) == refEqNode(x, y), "derive call inside a closure")
}

// nested derive call: the argument type of the outer call is the result type of the inner one
func VX_C01_form_nested() {
	x := vx.Nondet[*Node]("x")
	vx.Assert(deriveEqualNode(deriveCloneNode(x), x), "nested derive call: clone equals the original")
	c := deriveCloneNode(x)
	vx.Assert(x == nil || c != x, "the clone is a different object")
}

func VX_C01_form_curried() {
	x := vx.Nondet[*Node]("x")
	y := vx.Nondet[*Node]("y")
	vx.Assert(deriveEqualNodeC(x)(y) == refEqNode(x, y), "curried one-argument form")
}

func refEqBoth(a, b *Both) bool {
	if a == nil || b == nil {
		return a == nil && b == nil
	}
	if (a.P == nil) != (b.P == nil) {
		return false
	}
	if a.P != nil {
		if a.P.X != b.P.X || (a.P.Y == nil) != (b.P.Y == nil) || len(a.P.Y) != len(b.P.Y) {
			return false
		}
		for i := 0; i < len(a.P.Y); i++ {
			if a.P.Y[i] != b.P.Y[i] {
				return false
			}
		}
	}
	if a.Q.A != b.Q.A || (a.Q.B == nil) != (b.Q.B == nil) || len(a.Q.B) != len(b.Q.B) {
		return false
	}
	for k, v := range a.Q.B {
		w, ok := b.Q.B[k]
		if !ok || v != w {
			return false
		}
	}
	if a.N != b.N || (a.Ls == nil) != (b.Ls == nil) || len(a.Ls) != len(b.Ls) {
		return false
	}
	for i := 0; i < len(a.Ls); i++ {
		if !refEqBoth(a.Ls[i], b.Ls[i]) {
			return false
		}
	}
	return true
}

// structs imported from two sibling packages with the same package name, recursive through a slice
func VX_C01_form_imported() {
	x := vx.NondetOpt[*Both]("x", "len=1,cap=0,map=1,str=1")
	y := vx.NondetOpt[*Both]("y", "len=1,cap=0,map=1,str=1")
	vx.Assert(deriveEqualBoth(x, y) == refEqBoth(x, y), "Equal over structs imported from same-named packages")
	vx.Assert(deriveHashBoth(x) == deriveHashBoth(x), "Hash over imported structs is repeatable")
}

// imported structs with unexported fields (reflect+unsafe access path): front-end only - the generated code must
// type-check; it is not executed symbolically (reflect/unsafe are outside the encoder).
func usePrivate(a, b *ext2.Head, c, d *ext2.Tail) (bool, int, bool) {
	deriveDeepCopyHead(a, b)
	return deriveEqualHead(a, b), deriveCompareTail(c, d), deriveEqualTail(c, d)
}

// maps whose keys cannot be copied by assignment (pointer key, struct key holding a pointer): front-end only - the
// generated deep copy must type-check (equality of pointer-keyed maps is by key identity, so no semantic claim)
type PKey struct {
	P *int
	N string
}

type PKeyed struct {
	M  map[PKey][]int
	MP map[*int]string
}

func usePtrKeys(a, b *PKeyed) *PKeyed {
	deriveDeepCopyPKeyed(a, b)
	return deriveClonePKeyed(a)
}

// nested derive call behind an argument of basic type: the call can only be typed after an earlier generation pass
func VX_C01_form_nested2() {
	x := vx.Nondet[*Node]("x")
	n := vx.Nondet[int]("n")
	a, b := deriveTupleN(n, deriveCloneNode(x))()
	vx.Assert(a == n && deriveEqualNode(b, x), "tuple of a basic value and a nested derive result")
}

// the nested derive call occurs ONLY as a later argument, after an argument of basic type
func VX_C01_form_nested3() {
	m := vx.Nondet[map[string]int]("m")
	n := vx.Nondet[int]("n")
	a, ks := deriveTupleK(n, deriveKeysK(m))()
	vx.Assert(a == n && len(ks) == len(m), "tuple of a basic value and the keys of a map (nested call typed only after the first pass)")
}

// helper functions requested transitively for NAMED basic types: Compare and Hash over a map keyed by a named
// string ask the sort plugin for deriveSort([]Color), which must be generated for []Color, not for []string
type Color string

type Shade int

type Palette struct {
	Name    string
	Weights map[Color]int
	Levels  map[Shade]float64
}

func VX_C01_form_namedkeys() {
	x := vx.NondetOpt[*Palette]("x", "map=1,str=1")
	vx.Assert(deriveComparePalette(x, x) == 0, "a value compares equal to itself (maps keyed by named basic types)")
	vx.Assert(deriveHashPalette(x) == deriveHashPalette(x), "hash repeatable")
	l := deriveSortColors([]Color{"b", "a"})
	vx.Assert(l[0] == "a" && l[1] == "b", "direct sort of a slice of a named string type")
}

// an imported user package called "sort" next to a generated function that imports the standard library's sort
func VX_C01_form_samename() {
	x := vx.NondetOpt[*usort.Item]("x", "len=1,str=1")
	y := vx.NondetOpt[*usort.Item]("y", "len=1,str=1")
	vx.Assert(deriveEqualItem(x, x) && deriveEqualItem(x, y) == deriveEqualItem(y, x), "Equal over a struct from a package named like a standard-library package")
	l := deriveSortStrs([]string{"b", "a"})
	vx.Assert(l[0] == "a" && l[1] == "b", "Sort (which imports the standard library's sort) in the same generated file")
}
