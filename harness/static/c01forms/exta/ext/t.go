package ext

// T is exported with exported fields only.
type T struct {
	X int
	Y []string
}
