package c11e2e

// C11 end to end: one package with conflicts (the name deriveEqual used with three argument type lists),
// a duplicate (deriveEqualX for the argument types of EqB), and three names the user calls elsewhere, one of
// each kind the finder can meet: a package-level function VARIABLE, a declared function and a named type
// used in a conversion. They are exactly the names the fresh-name search tries first (deriveEqual_, deriveEqual_1, deriveEqual_2 for pointer arguments).
// The check runs the freshly built goderive under the four flag combinations (expected: fail, fail, fail,
// accept), then type-checks the accepted package and lets the solver decide, for symbolic arguments, that
// every call site reaches a function generated for exactly its argument types and that the user's own
// functions still compute what the user wrote.

import "github.com/awalterschulze/goderive/vxlib/vx"

type A struct {
	X int
	L []int
}

type B struct {
	Y string
	P *int
}

type C struct {
	Z [2]int8
	U uint16
}

// names the user calls elsewhere
var deriveEqual_ = func(a, b int) bool { return a == b+1 } // deliberately NOT equality: must stay the user's

func deriveEqual_1(a, b uint8) bool { return a+1 == b }

type deriveEqual_2 int

func EqA(a, b *A) bool { return deriveEqual(a, b) }

func EqB(a, b *B) bool { return deriveEqual(a, b) }

func EqC(a, b *C) bool { return deriveEqual(a, b) }

func EqB2(a, b *B) bool { return deriveEqualX(a, b) }

// a VALUE argument of a type whose name starts with a non-ASCII letter: the fresh-name search cuts the type name
type Émile struct{ N int }

func EqE(a, b Émile) bool { return deriveEqual(a, b) }

// a later derive call of another plugin that keeps its name (the file must still be rewritten for the earlier renames)
func KeysOf(m map[string]int) []string { return deriveKeys(m) }

func UserVar(a, b int) bool { return deriveEqual_(a, b) }

func UserFunc(a, b uint8) bool { return deriveEqual_1(a, b) }

func UserConv(a int) int { return int(deriveEqual_2(a)) + 1 }

func refEqA(a, b *A) bool {
	if a == nil || b == nil {
		return a == nil && b == nil
	}
	if a.X != b.X || (a.L == nil) != (b.L == nil) || len(a.L) != len(b.L) {
		return false
	}
	for i := 0; i < len(a.L); i++ {
		if a.L[i] != b.L[i] {
			return false
		}
	}
	return true
}

func refEqB(a, b *B) bool {
	if a == nil || b == nil {
		return a == nil && b == nil
	}
	if a.Y != b.Y || (a.P == nil) != (b.P == nil) {
		return false
	}
	return a.P == nil || *a.P == *b.P
}

func refEqC(a, b *C) bool {
	if a == nil || b == nil {
		return a == nil && b == nil
	}
	return a.Z[0] == b.Z[0] && a.Z[1] == b.Z[1] && a.U == b.U
}

func VX_C11_e2e_A() {
	x, y := vx.Nondet[*A]("x"), vx.Nondet[*A]("y")
	vx.Assert(EqA(x, y) == refEqA(x, y), "the call site over *A reaches an Equal generated for *A")
}

func VX_C11_e2e_B() {
	x, y := vx.Nondet[*B]("x"), vx.Nondet[*B]("y")
	vx.Assert(EqB(x, y) == refEqB(x, y), "the renamed call site over *B reaches an Equal generated for *B")
	vx.Assert(EqB2(x, y) == refEqB(x, y), "the deduplicated call site over *B reaches an Equal generated for *B")
}

func VX_C11_e2e_C() {
	x, y := vx.Nondet[*C]("x"), vx.Nondet[*C]("y")
	vx.Assert(EqC(x, y) == refEqC(x, y), "the renamed call site over *C reaches an Equal generated for *C")
}

func VX_C11_e2e_E() {
	x, y := vx.Nondet[Émile]("x"), vx.Nondet[Émile]("y")
	vx.Assert(EqE(x, y) == (x.N == y.N), "the renamed call site over Émile reaches an Equal generated for Émile")
}

func VX_C11_e2e_keys() {
	m := vx.NondetOpt[map[string]int]("m", "map=2,str=1")
	ks := KeysOf(m)
	vx.Assert(len(ks) == len(m), "the unrenamed call of another plugin still works")
}

func VX_C11_e2e_user() {
	a, b := vx.Nondet[int]("a"), vx.Nondet[int]("b")
	vx.Assert(UserVar(a, b) == (a == b+1), "the user's function variable deriveEqual_ is still what is called")
	c, d := vx.Nondet[uint8]("c"), vx.Nondet[uint8]("d")
	vx.Assert(UserFunc(c, d) == (c+1 == d), "the user's function deriveEqual_1 is still what is called")
	vx.Assert(UserConv(a) == a+1, "the user's conversion deriveEqual_2 is still a conversion")
}
