// Package ext is imported by the fixture: its struct has unexported fields, which goderive reaches through
// reflect.Indirect(reflect.ValueOf(p)).FieldByName(name).UnsafeAddr(). The reference functions live here
// because only this package can name those fields.
package ext

type Account struct {
	Name    string
	balance int64
	tags    []string
	Rate    uint8
	owner   *int
	écart   int16 // an unexported name that does not start with an ASCII letter
}

func Balance(a *Account) int64 { return a.balance }

// RefEq is the reference equality: nil-ness of pointers and slices is significant.
func RefEq(a, b *Account) bool {
	if a == nil || b == nil {
		return a == nil && b == nil
	}
	if a.Name != b.Name || a.balance != b.balance || a.Rate != b.Rate || a.écart != b.écart {
		return false
	}
	if (a.tags == nil) != (b.tags == nil) || len(a.tags) != len(b.tags) {
		return false
	}
	for i := 0; i < len(a.tags); i++ {
		if a.tags[i] != b.tags[i] {
			return false
		}
	}
	if (a.owner == nil) != (b.owner == nil) {
		return false
	}
	return a.owner == nil || *a.owner == *b.owner
}

// OnlyBalanceDiffers: both non-nil and equal everywhere except (possibly) in balance.
func OnlyBalanceDiffers(a, b *Account) bool {
	if a == nil || b == nil {
		return false
	}
	c := *b
	c.balance = a.balance
	return RefEq(a, &c)
}

// Scramble overwrites everything reachable from a (used to detect sharing between a copy and its source).
func Scramble(a *Account) {
	if a == nil {
		return
	}
	a.Name = "#"
	a.balance = ^a.balance
	for i := range a.tags {
		a.tags[i] = "#"
	}
	a.Rate = ^a.Rate
	a.écart = ^a.écart
	if a.owner != nil {
		*a.owner = ^*a.owner
	}
}

// Snapshot is an independent structural copy written by hand.
func Snapshot(a *Account) *Account {
	if a == nil {
		return nil
	}
	c := &Account{Name: a.Name, balance: a.balance, Rate: a.Rate, écart: a.écart}
	if a.tags != nil {
		c.tags = make([]string, len(a.tags))
		copy(c.tags, a.tags)
	}
	if a.owner != nil {
		o := *a.owner
		c.owner = &o
	}
	return c
}
