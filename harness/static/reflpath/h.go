package reflpath

// The reflect+unsafe access path goderive emits for unexported fields of imported structs, executed
// symbolically (engine model of reflect.ValueOf / Indirect / FieldByName / UnsafeAddr and of the
// uintptr -> unsafe.Pointer -> *T conversions; see VRefl in engine/value.go). One fixture, harnesses for
// C02 (Equal), C03 (Compare), C04 (Hash) and C05 (DeepCopy/Clone); each property's check runs its own.

import (
	"github.com/awalterschulze/goderive/vxfix/static/reflpath/ext"
	"github.com/awalterschulze/goderive/vxlib/vx"
)

const opt = "len=1,cap=0,str=1"

func sign(c int) int {
	if c < 0 {
		return -1
	}
	if c > 0 {
		return 1
	}
	return 0
}

func VX_C02_refl_equal() {
	x, y := vx.NondetOpt[*ext.Account]("x", opt), vx.NondetOpt[*ext.Account]("y", opt)
	vx.Assert(deriveEqual(x, y) == ext.RefEq(x, y), "Equal over unexported fields of an imported struct is structural")
	vx.Assert(deriveEqual(x, x), "reflexive on the same object")
}

func VX_C03_refl_compare() {
	x, y := vx.NondetOpt[*ext.Account]("x", opt), vx.NondetOpt[*ext.Account]("y", opt)
	c := deriveCompare(x, y)
	vx.Assert(c == -1 || c == 0 || c == 1, "range")
	vx.Assert(sign(c) == -sign(deriveCompare(y, x)), "antisymmetric")
	vx.Assert((c == 0) == deriveEqual(x, y), "Compare == 0 exactly when Equal")
	vx.Assert(deriveCompareC(x)(y) == c, "curried form agrees")
	if ext.OnlyBalanceDiffers(x, y) && ext.Balance(x) != ext.Balance(y) {
		want := 1
		if ext.Balance(x) < ext.Balance(y) {
			want = -1
		}
		vx.Assert(c == want, "a difference in one unexported field is ordered naturally")
	}
}

func VX_C04_refl_hash() {
	x, y := vx.NondetOpt[*ext.Account]("x", opt), vx.NondetOpt[*ext.Account]("y", opt)
	if deriveEqual(x, y) {
		vx.Assert(deriveHash(x) == deriveHash(y), "Equal values hash equally (unexported fields included)")
	}
	h := deriveHash(x)
	vx.Assert(deriveHash(ext.Snapshot(x)) == h, "hash of a rebuilt value")
}

func VX_C05_refl_copy() {
	x := vx.NondetOpt[*ext.Account]("x", opt)
	vx.Assume(x != nil)
	snap := ext.Snapshot(x)
	c := deriveClone(x)
	vx.Assert(ext.RefEq(c, x) && c != x, "clone equals the source and is a different object")
	d := vx.NondetOpt[*ext.Account]("d", opt)
	vx.Assume(d != nil)
	deriveDeepCopy(d, x)
	vx.Assert(ext.RefEq(d, x) && ext.RefEq(x, snap), "deep copy into an arbitrary destination equals the source; source unchanged")
	ext.Scramble(c)
	ext.Scramble(d)
	vx.Assert(ext.RefEq(x, snap), "writes through the copies do not reach the source")
}
