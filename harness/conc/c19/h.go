package c19

import "github.com/awalterschulze/goderive/vxlib/vx"

// producer sends the first n of (a, b) on ch and closes it.
func produce(ch chan int, n uint8, a, b int) {
	if n >= 1 {
		ch <- a
	}
	if n >= 2 {
		ch <- b
	}
	close(ch)
}

func VX_C19_fmap() {
	capIn := vx.Nondet[uint8]("cap")
	n := vx.Nondet[uint8]("n")
	vx.Assume(capIn <= 1 && n <= 2)
	a, b, k := vx.Nondet[int]("a"), vx.Nondet[int]("b"), vx.Nondet[int]("k")
	in := make(chan int, int(capIn))
	go produce(in, n, a, b)
	out := deriveFmapC(func(x int) int { return x ^ k }, in)
	var got []int
	for v := range out {
		got = append(got, v)
	}
	ok := len(got) == int(n)
	if len(got) >= 1 && got[0] != a^k {
		ok = false
	}
	if len(got) >= 2 && got[1] != b^k {
		ok = false
	}
	vx.Assert(ok, "every item delivered exactly once, in order, then the output is closed")
}

func VX_C19_dup() {
	capIn := vx.Nondet[uint8]("cap")
	n := vx.Nondet[uint8]("n")
	vx.Assume(capIn <= 1 && n <= 2)
	a, b := vx.Nondet[int]("a"), vx.Nondet[int]("b")
	in := make(chan int, int(capIn))
	go produce(in, n, a, b)
	c1, c2 := deriveDupC(in)
	var g1, g2 []int
	for i := 0; i < 3; i++ {
		v1, ok1 := <-c1
		v2, ok2 := <-c2
		if ok1 {
			g1 = append(g1, v1)
		}
		if ok2 {
			g2 = append(g2, v2)
		}
		if !ok1 && !ok2 {
			break
		}
	}
	ok := len(g1) == int(n) && len(g2) == int(n)
	if len(g1) >= 1 && (g1[0] != a || len(g2) < 1 || g2[0] != a) {
		ok = false
	}
	if len(g1) >= 2 && (g1[1] != b || len(g2) < 2 || g2[1] != b) {
		ok = false
	}
	vx.Assert(ok, "every item delivered once to each output, in order")
}

// count occurrences / check order helper
func seenOnce(got []int, x int) bool {
	c := 0
	for i := 0; i < len(got); i++ {
		if got[i] == x {
			c++
		}
	}
	return c == 1
}

func before(got []int, x, y int) bool {
	ix, iy := -1, -1
	for i := 0; i < len(got); i++ {
		if got[i] == x && ix < 0 {
			ix = i
		}
		if got[i] == y && iy < 0 {
			iy = i
		}
	}
	return ix >= 0 && iy >= 0 && ix < iy
}

func VX_C19_join_chanofchan() {
	n := vx.Nondet[uint8]("n")
	vx.Assume(n <= 2)
	c1 := make(chan int)
	c2 := make(chan int)
	go produce(c1, n, 10, 11)
	go produce(c2, 1, 20, 0)
	in := make(chan (<-chan int))
	go func() {
		in <- c1
		in <- c2
		close(in)
	}()
	out := deriveJoinCC(in)
	var got []int
	for v := range out {
		got = append(got, v)
	}
	ok := len(got) == int(n)+1 && seenOnce(got, 20)
	if n >= 1 && !seenOnce(got, 10) {
		ok = false
	}
	if n >= 2 && (!seenOnce(got, 11) || !before(got, 10, 11)) {
		ok = false
	}
	vx.Assert(ok, "each item exactly once, each input's order preserved, output closed after all inputs are drained")
}

func VX_C19_join_slice() {
	n := vx.Nondet[uint8]("n")
	vx.Assume(n <= 2)
	c1 := make(chan int)
	c2 := make(chan int)
	go produce(c1, n, 10, 11)
	go produce(c2, 1, 20, 0)
	out := deriveJoinSl([]<-chan int{c1, c2})
	var got []int
	for v := range out {
		got = append(got, v)
	}
	ok := len(got) == int(n)+1 && seenOnce(got, 20)
	if n >= 1 && !seenOnce(got, 10) {
		ok = false
	}
	if n >= 2 && (!seenOnce(got, 11) || !before(got, 10, 11)) {
		ok = false
	}
	vx.Assert(ok, "each item exactly once, each input's order preserved, output closed after all inputs are drained")
}

// edge configurations: no input channel at all (nil or empty slice) and a single one
func VX_C19_join_slice0() {
	var in []<-chan int
	if vx.Nondet[bool]("empty") {
		in = []<-chan int{}
	}
	out := deriveJoinSl(in)
	n := 0
	for range out {
		n++
	}
	vx.Assert(n == 0, "no inputs: the output is closed without delivering anything")
}

func VX_C19_join_slice1() {
	n := vx.Nondet[uint8]("n")
	vx.Assume(n <= 2)
	c1 := make(chan int)
	go produce(c1, n, 10, 11)
	out := deriveJoinSl([]<-chan int{c1})
	var got []int
	for v := range out {
		got = append(got, v)
	}
	ok := len(got) == int(n)
	if n >= 1 && got[0] != 10 {
		ok = false
	}
	if n >= 2 && got[1] != 11 {
		ok = false
	}
	vx.Assert(ok, "one input: its items in order, then the output is closed")
}

func VX_C19_join_chanofchan0() {
	in := make(chan (<-chan int))
	go func() { close(in) }()
	out := deriveJoinCC(in)
	n := 0
	for range out {
		n++
	}
	vx.Assert(n == 0, "no inner channels: the output is closed without delivering anything")
}

func VX_C19_join_select() {
	n := vx.Nondet[uint8]("n")
	m := vx.Nondet[uint8]("m")
	vx.Assume(n <= 2 && m <= 1)
	c1 := make(chan int)
	c2 := make(chan int)
	go produce(c1, n, 10, 11)
	go produce(c2, m, 20, 0)
	out := deriveJoinV(c1, c2)
	var got []int
	for v := range out {
		got = append(got, v)
	}
	ok := len(got) == int(n)+int(m)
	if m >= 1 && !seenOnce(got, 20) {
		ok = false
	}
	if n >= 1 && !seenOnce(got, 10) {
		ok = false
	}
	if n >= 2 && (!seenOnce(got, 11) || !before(got, 10, 11)) {
		ok = false
	}
	vx.Assert(ok, "each item exactly once, each input's order preserved, output closed after all inputs are drained")
}

func VX_C19_pipeline() {
	x := vx.Nondet[int]("x")
	f := func(a int) <-chan int {
		c := make(chan int)
		go produce(c, 2, a, a+1)
		return c
	}
	g := func(b int) <-chan int {
		c := make(chan int)
		go produce(c, 1, b*2, 0)
		return c
	}
	out := derivePipelineC(f, g)(x)
	var got []int
	for v := range out {
		got = append(got, v)
	}
	vx.Assert(len(got) == 2 && ((got[0] == x*2 && got[1] == (x+1)*2) || (got[1] == x*2 && got[0] == (x+1)*2)), "every item of every stage delivered exactly once")
}
