package c20

import "github.com/awalterschulze/goderive/vxlib/vx"

type vxErr struct{ id int }

func (e *vxErr) Error() string { return "vxErr" }

// Two functions, every subset failing, arbitrary results.
func VX_C20_do2() {
	r0 := vx.Nondet[int]("r0")
	r1 := vx.Nondet[string]("r1")
	fail0 := vx.Nondet[bool]("fail0")
	fail1 := vx.Nondet[bool]("fail1")
	e0 := error(&vxErr{0})
	e1 := error(&vxErr{1})
	f0 := func() (int, error) {
		if fail0 {
			return r0, e0
		}
		return r0, nil
	}
	f1 := func() (string, error) {
		if fail1 {
			return r1, e1
		}
		return r1, nil
	}
	v0, v1, err := deriveDo2(f0, f1)
	vx.Assert(v0 == r0 && v1 == r1, "each function's value in its position")
	vx.Assert((err == nil) == (!fail0 && !fail1), "nil error exactly when all succeeded")
	vx.Assert(err == nil || (fail0 && err == e0) || (fail1 && err == e1), "otherwise one of the errors actually returned")
}

// Functions that wait for one another: f0 hands a value to f1 over an unbuffered channel.
func VX_C20_rendezvous() {
	x := vx.Nondet[int]("x")
	ch := make(chan int)
	f0 := func() (int, error) {
		ch <- x
		return 1, nil
	}
	f1 := func() (int, error) {
		y := <-ch
		return y, nil
	}
	v0, v1, err := deriveDoR(f0, f1)
	vx.Assert(v0 == 1 && v1 == x && err == nil, "both functions complete although they wait for one another")
}

// Three functions, one of them failing.
func VX_C20_do3() {
	r0 := vx.Nondet[int]("r0")
	r1 := vx.Nondet[int]("r1")
	r2 := vx.Nondet[bool]("r2")
	which := vx.Nondet[uint8]("which")
	vx.Assume(which <= 3)
	e := error(&vxErr{7})
	f0 := func() (int, error) {
		if which == 0 {
			return r0, e
		}
		return r0, nil
	}
	f1 := func() (int, error) {
		if which == 1 {
			return r1, e
		}
		return r1, nil
	}
	f2 := func() (bool, error) {
		if which == 2 {
			return r2, e
		}
		return r2, nil
	}
	v0, v1, v2, err := deriveDo3(f0, f1, f2)
	vx.Assert(v0 == r0 && v1 == r1 && v2 == r2, "each function's value in its position")
	vx.Assert((which == 3 && err == nil) || (which < 3 && err == e), "nil error exactly when all succeeded, otherwise the error returned")
}
