package derive

// Placeholder: the C10 check overwrites this file in its scratch copy with the flag constant it
// extracts from the SSA of derive.newPackage on every run.
const vxOpenFlags = -1
