package derive

// C09, finder side: a derive call whose argument types are not (yet) all known must be deferred and, if it
// never resolves, reported as "cannot generate"; it must never be handed to a plugin. call.HasUndefined is
// the gate. The argument list is symbolic (every position ranges over known, nil and invalid types).

import (
	"go/types"

	"github.com/awalterschulze/goderive/vxlib/vx"
)

func vxHasUndefined(n int) {
	pkg := types.NewPackage("example.com/p", "p")
	a := types.NewNamed(types.NewTypeName(0, pkg, "A", nil), types.NewStruct(nil, nil), nil)
	inv := types.Typ[types.Invalid]
	uni := []types.Type{nil, inv, types.Typ[types.Int], types.Typ[types.String], types.NewPointer(a), types.NewSlice(inv), types.NewSlice(types.Typ[types.Int]),
		types.NewSignature(nil, types.NewTuple(types.NewVar(0, pkg, "x", types.Typ[types.Int])), types.NewTuple(types.NewVar(0, pkg, "", inv)), false)}
	bad := []bool{true, true, false, false, false, true, false, true}
	args := make([]types.Type, n)
	want := false
	for i := 0; i < n; i++ {
		k := vx.Nondet[uint8]("arg")
		vx.Assume(k < 8)
		args[i] = uni[k]
		if bad[k] {
			want = true
		}
	}
	c := &call{Name: "deriveTuple", Args: args}
	got := c.HasUndefined()
	vx.Assert(got == want, "HasUndefined is true exactly when some argument type is unknown or invalid, at any position")
}

func VX_C09_hasUndefined_N1() { vxHasUndefined(1) }
func VX_C09_hasUndefined_N2() { vxHasUndefined(2) }
func VX_C09_hasUndefined_N3() { vxHasUndefined(3) }
