package derive

// C12: a derive call is handled by the plugin with the longest matching prefix, whatever the
// registration order. The real sortPlugins (its less closure under the insertion sort that sort.Slice
// runs at this size) and the real pkg.Add loop are executed symbolically over prefixes and call names
// chosen by the solver from an alphabet of nested prefixes.

import (
	"go/types"

	"github.com/awalterschulze/goderive/vxlib/vx"
)

type vxGen struct {
	TypesMap
	id  int
	hit *int
}

func (g *vxGen) Add(name string, typs []types.Type) (string, error) {
	*g.hit = g.id
	return name, nil
}

func (g *vxGen) Generate(typs []types.Type) error { return nil }

func vxPrefixAlphabet() []string {
	return []string{"derive", "deriveS", "deriveSort", "deriveSorted", "deriveSet", "gen"}
}

func vxCallNames() []string {
	return []string{"deriveSortedKeys", "deriveSortX", "deriveSetOf", "deriveSX", "deriveQ", "genX", "other"}
}

func vxHasPrefix(s, p string) bool { return len(s) >= len(p) && s[:len(p)] == p }

func vxDispatch(n int) {
	alpha := vxPrefixAlphabet()
	var pi [4]uint8
	ps := make([]Plugin, n)
	gens := make(map[string]Generator, n)
	hit := -1
	ids := []string{"p0", "p1", "p2", "p3"}
	for i := 0; i < n; i++ {
		pi[i] = vx.Nondet[uint8]("prefix")
		vx.Assume(pi[i] < 6)
		for j := 0; j < i; j++ {
			vx.Assume(pi[j] != pi[i]) // plugins have distinct prefixes
		}
		ps[i] = NewPlugin(ids[i], alpha[pi[i]], nil)
		gens[ids[i]] = &vxGen{id: i, hit: &hit}
	}
	sortPlugins(ps)
	names := vxCallNames()
	ci := vx.Nondet[uint8]("call")
	vx.Assume(ci < 7)
	p := &pkg{plugins: ps, generators: gens}
	got, err := p.Add(&call{Name: names[ci]})
	// reference: the registered plugin with the longest prefix of the call name
	best, bestLen := -1, -1
	for i := 0; i < n; i++ {
		pre := alpha[pi[i]]
		if vxHasPrefix(names[ci], pre) && len(pre) > bestLen {
			best, bestLen = i, len(pre)
		}
	}
	vx.Assert(err == nil, "dispatch does not fail")
	vx.Assert(hit == best, "the call is handled by the plugin with the longest matching prefix (none if no prefix matches)")
	vx.Assert((best == -1) == (got == ""), "a name is returned exactly when some plugin matched")
	// the sorted order itself: never a shorter prefix before a longer one
	ordered := true
	for i := 0; i+1 < n; i++ {
		if len(ps[i].GetPrefix()) < len(ps[i+1].GetPrefix()) {
			ordered = false
		}
	}
	vx.Assert(ordered, "plugins are ordered longest prefix first")
}

func VX_C12_dispatch_N2() { vxDispatch(2) }
func VX_C12_dispatch_N3() { vxDispatch(3) }
func VX_C12_dispatch_N4() { vxDispatch(4) }

// ----- stubs for the environment of main() -----

// VXExpectPrefix is set by the main() harness: plugin name -> the prefix it must end up with.
var VXExpectPrefix map[string]string

type vxProgram struct{}

func (vxProgram) Generate() error { return nil }

func VXStub_ImportPaths(args []string) []string { return nil }

// VXStub_plugins_Load replaces (*plugins).Load during symbolic execution of main(): it checks the plugin list
// that main hands to the loader.
func VXStub_plugins_Load(p *plugins, paths []string) (Program, error) {
	// longest-match dispatch on the names that nested custom prefixes make ambiguous
	names := []string{"cmpEq", "eqOrdX", "deriveSet2X", "deriveHashMemX", "mmmX", "mmX", "genSortedX", "deriveSortedX", "deriveEqualX", "deriveCmpX", "genHashX"}
	ok := true
	for _, n := range names {
		first, best, bestLen := -1, -1, -1
		for i := 0; i < len(p.plugins); i++ {
			pre := p.plugins[i].GetPrefix()
			if vxHasPrefix(n, pre) {
				if first == -1 {
					first = i
				}
				if len(pre) > bestLen {
					best, bestLen = i, len(pre)
				}
			}
		}
		if first != best {
			ok = false
		}
	}
	vx.Assert(ok, "the first matching plugin is the one with the longest matching prefix")
	// customised prefixes arrive unchanged: an override is taken literally, every other prefix has "derive" replaced
	pref := true
	for i := 0; i < len(p.plugins); i++ {
		if want, has := VXExpectPrefix[p.plugins[i].Name()]; has && p.plugins[i].GetPrefix() != want {
			pref = false
		}
	}
	vx.Assert(pref, "every plugin listens on exactly the prefix the flags give it")
	return vxProgram{}, nil
}

// ----- C08: the order in which generators emit functions does not depend on map iteration order -----

type vxLogGen struct {
	TypesMap
	id        int
	remaining *int // work left in the whole package (shared, so that loop bounds stay concrete)
	log       *[]int
}

func (g *vxLogGen) Add(name string, typs []types.Type) (string, error) { return name, nil }
func (g *vxLogGen) ToGenerate() [][]types.Type {
	if *g.remaining > 0 {
		return make([][]types.Type, 1)
	}
	return nil
}
func (g *vxLogGen) Done() bool { return *g.remaining == 0 }
func (g *vxLogGen) Generate(typs []types.Type) error {
	*g.log = append(*g.log, g.id)
	*g.remaining--
	return nil
}

// vxEmissionOrder runs the real pkg.Generate twice over the same plugins (each with an arbitrary amount of
// pending work) and compares the order in which the generators are asked to emit.
func vxEmissionOrder(n int) {
	ids := []string{"p0", "p1", "p2", "p3"}
	prefixes := []string{"deriveD", "deriveC", "deriveB", "deriveA"}
	var logs [2][]int
	for run := 0; run < 2; run++ {
		ps := make([]Plugin, n)
		gens := make(map[string]Generator, n)
		remaining := n + 1
		for i := 0; i < n; i++ {
			ps[i] = NewPlugin(ids[i], prefixes[i], nil)
			gens[ids[i]] = &vxLogGen{id: i, remaining: &remaining, log: &logs[run]}
		}
		sortPlugins(ps)
		p := &pkg{plugins: ps, generators: gens}
		_, err := p.Generate()
		vx.Assert(err == nil, "generation succeeds")
	}
	same := len(logs[0]) == len(logs[1])
	for i := 0; i < len(logs[0]) && i < len(logs[1]); i++ {
		if logs[0][i] != logs[1][i] {
			same = false
		}
	}
	vx.Assert(same, "functions are emitted in the same order in both runs")
}

func VX_C08_emission_N2() { vxEmissionOrder(2) }
func VX_C08_emission_N3() { vxEmissionOrder(3) }
