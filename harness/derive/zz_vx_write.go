package derive

// C10 write lemma: newPackage rewrites a user file by opening it with the flags found in the real code
// (constant vxOpenFlags, extracted from the SSA of newPackage on every run) and writing the formatted
// source once from offset 0. Under POSIX open/write semantics the file must afterwards hold exactly the
// new bytes, for every old length m and new length n (renamed call shorter, equal or longer).

import "github.com/awalterschulze/goderive/vxlib/vx"

const (
	vxO_ACCMODE = 0x3
	vxO_TRUNC   = 0x200
	vxO_APPEND  = 0x400
)

// vxPosixOpenWrite models open(path, flags) on an existing regular file followed by one write of data.
func vxPosixOpenWrite(old []byte, flags int, data []byte) []byte {
	content := old
	if flags&vxO_TRUNC != 0 {
		content = content[:0]
	}
	if flags&vxO_ACCMODE == 0 {
		return content // opened read-only: the write fails
	}
	pos := 0
	if flags&vxO_APPEND != 0 {
		pos = len(content)
	}
	n := len(content)
	if pos+len(data) > n {
		n = pos + len(data)
	}
	out := make([]byte, n)
	copy(out, content)
	copy(out[pos:], data)
	return out
}

func VX_C10_write() {
	old := vx.NondetOpt[[]byte]("old", "len=6,cap=0")
	data := vx.NondetOpt[[]byte]("new", "len=6,cap=0")
	vx.Assume(old != nil && data != nil)
	res := vxPosixOpenWrite(old, vxOpenFlags, data)
	ok := len(res) == len(data)
	for i := 0; i < len(res) && i < len(data); i++ {
		if res[i] != data[i] {
			ok = false
		}
	}
	vx.Assert(ok, "after the rewrite the user file holds exactly the formatted source, nothing left over from the old contents")
}
