package derive

// Harnesses over the real typesMap (derive/typesmap.go), executed symbolically: which name and which
// argument type list each derive call uses, the flags, the reserved set and the iteration order of every
// Go map are solver variables; go/types calls run natively on the concrete alternatives.

import (
	"go/types"

	"github.com/awalterschulze/goderive/vxlib/vx"
)

func vxNoQual(p *types.Package) string { return "" }

// the name alphabet: the prefix itself and the first names the fresh-name search would try
func vxNameList() []string {
	return []string{"deriveEqual", "deriveEqualA", "deriveEqual_", "deriveEqual_A"}
}

// vxUniverse: pairwise non-assignable argument type lists.
func vxUniverse() [][]types.Type {
	pkg := types.NewPackage("example.com/p", "p")
	a := types.NewNamed(types.NewTypeName(0, pkg, "A", nil), types.NewStruct(nil, nil), nil)
	b := types.NewNamed(types.NewTypeName(0, pkg, "B", nil), types.NewStruct(nil, nil), nil)
	pa, pb := types.NewPointer(a), types.NewPointer(b)
	i, s := types.Typ[types.Int], types.Typ[types.String]
	_ = s
	// the last list is a proper prefix of the first (the curried one-argument form next to the two-argument form)
	return [][]types.Type{{pa, pa}, {pb, pb}, {i, i}, {pa}}
}

func vxSameTyps(a, b []types.Type) bool {
	if len(a) != len(b) {
		return false
	}
	for i := 0; i < len(a); i++ {
		if a[i] != b[i] {
			return false
		}
	}
	return true
}

// vxRegister plays the calls of one package through SetFuncName the way newPackage does (stop at the first error).
func vxRegister(k int) { vxRegisterU(k, vxUniverse(), false) }

// first >= 0 fixes the name of the first call: the K=4 harness is split into its four first names so that
// each query stays within the budget and the four run in parallel.
func vxRegister4(first int) { vxRegisterF(4, vxUniverse(), false, first) }

// vxUniverseOneWay: distinct type lists of which one is assignable to another but not conversely
// (chan int -> <-chan int). The property's quantifier is over pairwise non-assignable types; this universe
// probes just outside it.
func vxUniverseOneWay() [][]types.Type {
	i, s := types.Typ[types.Int], types.Typ[types.String]
	ch := types.NewChan(types.SendRecv, i)
	rch := types.NewChan(types.RecvOnly, i)
	return [][]types.Type{{ch, i}, {rch, i}, {i, i}, {s, s}}
}

// carveF18: exclude the histories of known finding F18 (universe vxUniverseOneWay only): a call over the more
// specific list {chan int, int} (index 0) after one over the more general {<-chan int, int} (index 1), and
// the two lists under one name (a conflict that SetFuncName takes for the same function).
func vxRegisterU(k int, uni [][]types.Type, carveF18 bool) { vxRegisterF(k, uni, carveF18, -1) }

func vxRegisterF(k int, uni [][]types.Type, carveF18 bool, first int) {
	autoname := vx.Nondet[bool]("autoname")
	dedup := vx.Nondet[bool]("dedup")
	vxNames := vxNameList()
	// names the user calls elsewhere (defined functions): an arbitrary subset of the alphabet
	reserved := map[string]struct{}{}
	var isRes [4]bool
	for n := 0; n < 4; n++ {
		isRes[n] = vx.Nondet[bool]("reserved")
		if isRes[n] {
			reserved[vxNames[n]] = struct{}{}
		}
	}
	tm := newTypesMap(vxNoQual, "deriveEqual", reserved, autoname, dedup).(*typesMap)
	var ni, ti [4]uint8
	var got [4]string
	failed := false
	conflict, duplicate := false, false
	for i := 0; i < k; i++ {
		ni[i] = vx.Nondet[uint8]("name")
		ti[i] = vx.Nondet[uint8]("typ")
		vx.Assume(ni[i] < 4 && ti[i] < 4)
		if i == 0 && first >= 0 {
			vx.Assume(ni[0] == uint8(first))
		}
		vx.Assume(!isRes[ni[i]]) // a derive call is undefined, hence not a defined (reserved) name
		for j := 0; j < i; j++ {
			if carveF18 {
				vx.Assume(!(ti[j] == 1 && ti[i] == 0))
				vx.Assume(!(ti[j] == 0 && ti[i] == 1 && (ni[j] == ni[i] || got[j] == vxNames[ni[i]])))
			}
			if ni[j] == ni[i] && ti[j] != ti[i] {
				conflict = true
			}
			if ni[j] != ni[i] && ti[j] == ti[i] {
				duplicate = true
			}
		}
		if !failed {
			nn, err := tm.SetFuncName(vxNames[ni[i]], uni[ti[i]]...)
			if err != nil {
				failed = true
			} else {
				got[i] = nn
			}
		}
	}
	if !autoname && !dedup {
		vx.Assert(failed == (conflict || duplicate), "without flags: fails exactly on a conflict or a duplicate")
	}
	if autoname && !dedup {
		vx.Assert(!(duplicate && !conflict) || failed, "-autoname alone still fails when the only clashes are duplicates")
	}
	if dedup && !autoname {
		vx.Assert(!(conflict && !duplicate) || failed, "-dedup alone still fails when the only clashes are conflicts")
	}
	if autoname && dedup {
		vx.Assert(!failed, "with both flags every package is accepted")
	}
	if !failed {
		ok := true
		for i := 0; i < k; i++ {
			bound, has := tm.funcToTyps[got[i]]
			if !has || !vxSameTyps(bound, uni[ti[i]]) {
				ok = false
			}
			if got[i] != vxNames[ni[i]] {
				// a renamed call: the new name must not be one the user calls elsewhere
				if _, r := reserved[got[i]]; r {
					ok = false
				}
			}
			for j := 0; j < i; j++ {
				if got[i] == got[j] && ti[i] != ti[j] {
					ok = false
				}
				if dedup && ti[i] == ti[j] && got[i] != got[j] {
					ok = false
				}
			}
		}
		vx.Assert(ok, "on success every call site is bound to a function for exactly its types; reserved names never taken; one name per type list after -dedup")
	}
}

func VX_C11_register_K2()    { vxRegister(2) }
func VX_C11_register_K3()    { vxRegister(3) }
func VX_C11_register_K4_n0() { vxRegister4(0) }
func VX_C11_register_K4_n1() { vxRegister4(1) }
func VX_C11_register_K4_n2() { vxRegister4(2) }
func VX_C11_register_K4_n3() { vxRegister4(3) }

// One-way assignable argument types (chan int -> <-chan int): just outside the property's quantifier
// ("pairwise non-assignable"), inside its statement. The general-before-specific order is known finding F18.
func VX_C11_oneway_K2()         { vxRegisterU(2, vxUniverseOneWay(), true) }
func VX_C11_oneway_K3()         { vxRegisterU(3, vxUniverseOneWay(), true) }
func VX_C11_oneway_K2__KF_F18() { vxRegisterU(2, vxUniverseOneWay(), false) }

// ---------- C08: the name table does not depend on Go's map iteration order ----------

// vxUniverseAssignable contains mutually assignable named/unnamed types: type A []int; type B []int; []int.
func vxUniverseAssignable() [][]types.Type {
	pkg := types.NewPackage("example.com/p", "p")
	sl := types.NewSlice(types.Typ[types.Int])
	a := types.NewNamed(types.NewTypeName(0, pkg, "A", nil), sl, nil)
	b := types.NewNamed(types.NewTypeName(0, pkg, "B", nil), sl, nil)
	i := types.Typ[types.Int]
	return [][]types.Type{{a, a}, {b, b}, {sl, sl}, {i, i}}
}

// vxTwoRuns plays the same operation sequence (explicit registrations and helper lookups) on two fresh
// tables; every `range` over a Go map inside typesMap gets its own arbitrary order in each run.
// pattern fixes the kind of each operation ('g' lookup, 's' registration, '?' solver-chosen): the K3 harness over
// the assignable universe is split into its 8 patterns so that each query stays small and they run in parallel.
func vxTwoRuns(k int, uni [][]types.Type, pattern string) {
	names := vxNameList()
	autoname := vx.Nondet[bool]("autoname")
	dedup := vx.Nondet[bool]("dedup")
	tm1 := newTypesMap(vxNoQual, "deriveEqual", map[string]struct{}{}, autoname, dedup).(*typesMap)
	tm2 := newTypesMap(vxNoQual, "deriveEqual", map[string]struct{}{}, autoname, dedup).(*typesMap)
	same := true
	for i := 0; i < k; i++ {
		isGet := pattern[i] == 'g'
		if pattern[i] == '?' {
			isGet = vx.Nondet[bool]("isGet")
		}
		n := vx.Nondet[uint8]("name")
		t := vx.Nondet[uint8]("typ")
		vx.Assume(n < 4 && t < 4)
		if isGet {
			if tm1.GetFuncName(uni[t]...) != tm2.GetFuncName(uni[t]...) {
				same = false
			}
		} else {
			r1, e1 := tm1.SetFuncName(names[n], uni[t]...)
			r2, e2 := tm2.SetFuncName(names[n], uni[t]...)
			if (e1 != nil) != (e2 != nil) || (e1 == nil && r1 != r2) {
				same = false
			}
		}
	}
	vx.Assert(same, "every registration / lookup gives the same name (and the same error-ness) in both runs")
	g1, g2 := tm1.ToGenerate(), tm2.ToGenerate()
	ok := len(g1) == len(g2)
	for i := 0; i < len(g1) && i < len(g2); i++ {
		if !vxSameTyps(g1[i], g2[i]) {
			ok = false
		}
	}
	vx.Assert(ok, "the work list of functions to generate is the same in both runs")
}

func VX_C08_names_K2()          { vxTwoRuns(2, vxUniverse(), "??") }
func VX_C08_names_K3()          { vxTwoRuns(3, vxUniverse(), "???") }
func VX_C08_assignable_K2()     { vxTwoRuns(2, vxUniverseAssignable(), "??") }
func VX_C08_assignable_K3_sss() { vxTwoRuns(3, vxUniverseAssignable(), "sss") }
func VX_C08_assignable_K3_ssg() { vxTwoRuns(3, vxUniverseAssignable(), "ssg") }
func VX_C08_assignable_K3_sgs() { vxTwoRuns(3, vxUniverseAssignable(), "sgs") }
func VX_C08_assignable_K3_sgg() { vxTwoRuns(3, vxUniverseAssignable(), "sgg") }
func VX_C08_assignable_K3_gss() { vxTwoRuns(3, vxUniverseAssignable(), "gss") }
func VX_C08_assignable_K3_gsg() { vxTwoRuns(3, vxUniverseAssignable(), "gsg") }
func VX_C08_assignable_K3_ggs() { vxTwoRuns(3, vxUniverseAssignable(), "ggs") }
func VX_C08_assignable_K3_ggg() { vxTwoRuns(3, vxUniverseAssignable(), "ggg") }

// ---------- C01: name-table lemma ----------

// vxNameTable: after any sequence of registrations and helper lookups, every name handed out is bound to
// a type list equal to the request, distinct type lists have distinct names, minted names are never
// reserved, and every bound type list is generated exactly once (ToGenerate/Generating/Done protocol).
func vxNameTable(k int) {
	names := vxNameList()
	uni := vxUniverse()
	reserved := map[string]struct{}{}
	var isRes [4]bool
	for n := 0; n < 4; n++ {
		isRes[n] = vx.Nondet[bool]("reserved")
		if isRes[n] {
			reserved[names[n]] = struct{}{}
		}
	}
	tm := newTypesMap(vxNoQual, "deriveEqual", reserved, vx.Nondet[bool]("autoname"), vx.Nondet[bool]("dedup")).(*typesMap)
	var ti [4]uint8
	var got [4]string
	var valid [4]bool
	tookReserved := false
	for i := 0; i < k; i++ {
		isGet := vx.Nondet[bool]("isGet")
		n := vx.Nondet[uint8]("name")
		ti[i] = vx.Nondet[uint8]("typ")
		vx.Assume(n < 4 && ti[i] < 4 && !isRes[n])
		if isGet {
			got[i] = tm.GetFuncName(uni[ti[i]]...)
			valid[i] = true
			if _, r := reserved[got[i]]; r {
				tookReserved = true
			}
		} else {
			nn, err := tm.SetFuncName(names[n], uni[ti[i]]...)
			if err == nil {
				got[i] = nn
				valid[i] = true
			}
		}
	}
	ok := true
	for i := 0; i < k; i++ {
		if !valid[i] {
			continue
		}
		bound, has := tm.funcToTyps[got[i]]
		if !has || !vxSameTyps(bound, uni[ti[i]]) {
			ok = false
		}
		for j := 0; j < i; j++ {
			if valid[j] && got[i] == got[j] && ti[i] != ti[j] {
				ok = false
			}
		}
	}
	vx.Assert(!tookReserved, "a helper name is never one the user calls elsewhere")
	vx.Assert(ok, "every name handed out is bound to exactly the requested types; one name never serves two type lists")
	// generate-until-done: each pending type list is generated exactly once
	rounds := 0
	gen := 0
	for !tm.Done() && rounds < 3 {
		for _, typs := range tm.ToGenerate() {
			tm.Generating(typs...)
			gen++
		}
		rounds++
	}
	vx.Assert(tm.Done() && len(tm.ToGenerate()) == 0, "the work list drains")
	vx.Assert(gen == len(tm.typss) && gen == len(tm.funcToTyps), "every registered function is generated exactly once")
}

func VX_C01_nametable_K2() { vxNameTable(2) }
func VX_C01_nametable_K3() { vxNameTable(3) }
